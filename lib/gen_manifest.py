#!/usr/bin/env python3
"""Regenerate MANIFEST.json from lib/manifest_src.py (single source of truth)."""
import json, os, sys
ROOT = os.path.dirname(os.path.dirname(os.path.abspath(__file__)))
sys.path.insert(0, os.path.join(ROOT, "lib"))
from manifest_src import MANIFEST
json.dump(MANIFEST, open(os.path.join(ROOT, "MANIFEST.json"), "w"), indent=1)
print("checks:", [c["property_id"] for c in MANIFEST["checks"]])
print("not_applicable:", [c["property_id"] for c in MANIFEST.get("not_applicable", [])])
