#!/usr/bin/env python3
"""Validate MANIFEST.json and evidence/*.json against the schemas (needs python3-vt's jsonschema)."""
import json, glob, sys
import jsonschema
m = json.load(open('/verif/MANIFEST.json')); s = json.load(open('/root/.vp/MANIFEST.schema.json'))
jsonschema.validate(m, s); print("manifest ok")
es = json.load(open('/root/.vp/EVIDENCE.schema.json'))
for f in sorted(glob.glob('/verif/evidence/*.json')):
    jsonschema.validate(json.load(open(f)), es); print("ok", f)
