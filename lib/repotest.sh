#!/bin/sh
# run the pinned repo tests with hooks off; print one line
cd /repo && cargo test --workspace --no-fail-fast --offline 2>&1 | grep -E "^test result|FAILED|^error" | tr '\n' ' '; echo
