"""Source of MANIFEST.json."""

ALL = ["C%02d" % i for i in range(1, 19)]

CHECKS = {
    "C16": dict(
        category="exploration",
        technique="exhaustive runtime enumeration of every mapping domain through the real conversion functions, compared online with independent specification tables",
        text=("Every finite domain named by the property is executed completely (2^32 codes four times over, 2^16 "
              "language codes, 2^16 profile pairs, all u8 values, all short strings) under an oracle table typed from the "
              "specifications, so for these mappings observation of all executions is a decision, not a sample; only the "
              "textual FourCC stratum is sampled in the quick tier and complete in the thorough tier."),
        note="Trusted base: the oracle tables in harness/src/props/c16.rs; text form demanded only of UTF-8 representable codes (DESIGN 8.3).",
        ref="5 (C16), 8.3",
    ),
}

PENDING_REASON = "monitor not yet registered in this commit (implementation in progress, see DESIGN.md section 11); not claimed until its check is silent on the unchanged tree"

def mk():
    checks = []
    for pid in ALL:
        if pid not in CHECKS:
            continue
        c = CHECKS[pid]
        checks.append({
            "property_id": pid,
            "quick_cmd": f"./check {pid} quick",
            "thorough_cmd": f"./check {pid} thorough",
            "evidence_file": f"/verif/evidence/{pid}.json",
            "replay_cmd_template": "./check replay {path}",
            "engine": "mp4verif",
            "level_claimed": {"category": c["category"], "text": c["text"], "design_ref": c["ref"]},
            "level_note": c["note"],
            "technique": c["technique"],
        })
    na = [{"property_id": p, "reason": PENDING_REASON} for p in ALL if p not in CHECKS]
    return {
        "version": 1,
        "setup_cmd": "./check setup",
        "hooks": {
            "guard": "verif-hooks (cargo feature of the mp4 crate, off by default)",
            "enable": "the harness crate /verif/harness depends on mp4 = { path = \"/repo\" } with feature hooks = [\"mp4/verif-hooks\"] (default on)",
            "baseline_off_cmd": "cd /repo && cargo test --workspace --no-fail-fast --offline",
            "source_commits": ["55a52a6"],
            "add_only": True,
        },
        "engines": [{
            "name": "mp4verif",
            "path": "/verif/harness",
            "serves_properties": sorted(CHECKS.keys()),
            "kind_free_text": "Rust harness (path dependency on /repo) with instrumented streams, counting allocator, panic monitor, independent reference codec and model; driven by the python3 script ./check which shards work over 16 processes, merges observations and writes evidence",
        }],
        "checks": checks,
        "not_applicable": na,
        "notes": "Runtime monitoring only. See DESIGN.md. Known findings: KNOWN_FINDINGS.txt.",
    }

MANIFEST = mk()
