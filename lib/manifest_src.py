"""Source of MANIFEST.json."""

ALL = ["C%02d" % i for i in range(1, 19)]

CHECKS = {
    "C16": dict(
        category="exploration",
        technique="exhaustive runtime enumeration of every mapping domain through the real conversion functions, compared online with independent specification tables",
        text=("Every finite domain named by the property is executed completely (2^32 codes four times over, 2^16 "
              "language codes, 2^16 profile pairs, all u8 values, all short strings) under an oracle table typed from the "
              "specifications, so for these mappings observation of all executions is a decision, not a sample; only the "
              "textual FourCC stratum is sampled in the quick tier and complete in the thorough tier."),
        note="Trusted base: the oracle tables in harness/src/props/c16.rs; text form demanded only of UTF-8 representable codes (DESIGN 8.3).",
        ref="5 (C16), 8.3",
    ),
}

CHECKS["C01"] = dict(
    category="exploration",
    technique="call-history replay of the real muxer, read-back with the real reader, sequential-model oracle; writer-state hook invariants; metamorphic removal of rejected calls",
    text=("Runs bounded-exhaustive and seeded random muxer histories (all five media kinds, interleavings, lazily added tracks, rejected calls) "
          "and compares every sample read back with a sequential model, in both overflow-checked and release builds. This is the right level because the "
          "property quantifies over histories: the monitor observes tens of thousands of distinct history shapes per run, including every history up to "
          "length 2/3 over a 54-symbol alphabet, which the three canned round-trip-free tests cannot reach."),
    note="Trusted base: sequential model in harness/src/muxdrive.rs; hook verif_state (read-only). Histories whose durations cannot be represented in 64-bit header fields are left to C17.",
    ref="5 (C01)",
)
CHECKS["C02"] = dict(
    category="exploration",
    technique="independent ISO-BMFF decoder (no library code) over every muxer output; table expansion cross-checked with the history model",
    text=("Every output of the C01 history space is decoded by an independent strict parser and the sample tables are expanded per ISO 14496-12 and "
          "compared with the model (sizes, deltas, offsets, sync set, chunk containment/disjointness, bytes at offsets, header durations and versions). "
          "A reader/writer pair that is wrong in the same way (invisible to C01) is caught here."),
    note="Trusted base: harness/src/refdec.rs. 'Within one tick' = [floor-1, ceil+1] of the exact rational.",
    ref="5 (C02), Appendix A",
)
CHECKS["C14"] = dict(
    category="exploration",
    technique="configuration round trip through real muxer and reader; exhaustive AAC parameter grid and language enumeration; exact-rational duration oracle",
    text=("Random configurations over the documented domain plus the complete 46x13x7 AAC grid and (thorough) all 26^3 languages are muxed and "
          "re-opened; every accessor is compared with the configuration. Known finding K1 (AOT >= 32) is attributed only on its exact trigger."),
    note="Documented domain as stated in the property; K1 listed in KNOWN_FINDINGS.txt.",
    ref="5 (C14), 7 (K1), Appendix E",
)

CHECKS["C13"] = dict(
    category="exploration",
    technique="real muxer over a sparse >4 GiB verifying stream (half the time one that takes short writes); boundary scenarios just below/at/above each 2^32 limit plus thousands of generated no-volume scenarios; independent decoder, configuration oracle and full read-back",
    text=("Places media-data size, chunk offsets (by volume and by non-zero start position) and media/track/movie durations just below, at and above "
          "2^32 for every media kind and (thorough) a single chunk larger than 4 GiB, then checks with the independent decoder that the 64-bit forms are "
          "used exactly when needed and no field is truncated, and reads every sample back through the real reader. The boundaries are few and known, so "
          "directed scenario coverage on both sides of each is the appropriate level."),
    note="Trusted base: SparseStream (harness/src/streams.rs) verifies payload writes against their generator; refdec.rs.",
    ref="5 (C13)",
)
CHECKS["C17"] = dict(
    category="exploration",
    technique="panic monitor over degenerate muxer histories in two build profiles, also continued after a single injected sink error; C01/C02 oracles on the runs whose only errors are required rejections",
    text=("Perturbs documented-domain histories with 14 classes of degenerate arguments and call orders and runs every call under a panic hook in the "
          "overflow-checked and the release profile; all-Ok finished histories are additionally judged by the C01 and C02 oracles."),
    note="Samples >= 4 GiB are not exercised (F35 in DESIGN 7).",
    ref="5 (C17)",
)

CHECKS["C03"] = dict(
    category="exploration",
    technique="reference-encoded files from a logical movie x physical layout model; per-sample oracle on the real reader; exhaustive small stratum",
    text=("The library only reads files produced by an independent encoder, so reader and writer cannot agree on a shared mistake. Every "
          "composition of N <= 6 (7) samples into chunks with every stsc run-length grouping is enumerated and crossed with the other table "
          "encodings; large random movies with interleaved tracks extend the reach. All of sample_count, sample_offset and read_sample are "
          "compared for every id from 0 to beyond the count."),
    note="Trusted base: refenc.rs/model.rs; each case also cross-checks model vs refdec.rs (rule oracle_inconsistent depends on harness code only).",
    ref="5 (C03), Appendix A",
)
CHECKS["C09"] = dict(
    category="exploration",
    technique="reference-encoded fragmented movies (flag lattice exhaustive for small shapes, random beyond), read as one stream and as init+media segment; per-sample oracle",
    text=("Enumerates the base-offset / default-duration / per-sample-duration / composition-offset / tfdt-version / data-offset lattice for 1-2 "
          "fragments and explores larger multi-track multi-fragment movies randomly; both delivery modes are compared sample by sample with the model. "
          "Known finding K2 (single trex) is attributed only on its trigger and probed every run."),
    note="One run per traf, sizes per sample, tfdt present; sync not compared. K2 in KNOWN_FINDINGS.txt.",
    ref="5 (C09), 7 (K2), Appendix E",
)

CHECKS["C12"] = dict(
    category="exploration",
    technique="metamorphic layout variants from tree transformations of reference-encoded movies; model offsets + accessor transcript equality",
    text=("For each logical movie (plain and fragmented) every single applicable layout transformation - inserted free/unknown box at each top-level "
          "position and each child slot of each iterating container, sibling permutation, 64-bit header on each box, spare bytes on each fixed/table "
          "box - is applied, plus random combinations; per-sample answers must match the model for the new layout and all accessors must equal the "
          "canonical layout's. Completeness per subject over positions is what unit tests with one canned layout cannot give."),
    note="Trusted base: refenc.rs tree serialiser and model.rs offsets. Interpretations in DESIGN 8.3.",
    ref="5 (C12), 8.3",
)
CHECKS["C18"] = dict(
    category="exploration",
    technique="reference-encoded item lists over all item subsets x handler x placement x encodings x unrelated items; accessor oracle",
    text=("All 16 subsets of the four items crossed with handler type, meta placement, header form, payload lengths, year encodings and random "
          "unrelated items are synthesised and the four accessors compared with the encoded values / expected absence."),
    note="Data types limited to the library's table for the four known items; see assumptions in the evidence.",
    ref="5 (C18), 8.3",
)

CHECKS["C04"] = dict(
    category="exploration",
    technique="shape-space enumeration per box type with boundary-biased values; encode/decode round-trip, size, header and stream-position monitors; re-encode fixpoint",
    text=("Enumerates the complete shape space of 48 box types and fills each shape with boundary-biased values, then checks the inverse and "
          "size-exactness claims directly on the real encoder/decoder, with random trailing siblings so that a decoder that reads too little or too much "
          "is observed through the stream position."),
    note="Representable-value domain stated in the evidence assumptions; hooks re-export the crate-private box types.",
    ref="5 (C04), 8.3",
)
CHECKS["C05"] = dict(
    category="exploration",
    technique="differential against an independent reference encoder/decoder derived from one abstract field list; equivalent-encoding variants; accessor checks on reference files",
    text=("Library bytes are compared with independently produced reference bytes and reference bytes (plus 64-bit header, padded descriptor lengths, "
          "reserved-bit and compressor-name variants) are decoded and compared field by field, so symmetric encode/decode mistakes invisible to C04 are "
          "caught. Known finding K3 (frequency index 15) attributed only on its trigger."),
    note="Trusted base: refenc.rs (DESIGN Appendix A). Reserved bits are not fields.",
    ref="5 (C05), 7 (K3), Appendix A",
)

CHECKS["C06"] = dict(
    category="exploration",
    technique="panic hook + process-death journal over a structure-aware mutated corpus (single / directed-pair / havoc mutations, amplifiers, generated movies), full accessor sweep, two build profiles; thorough: the same workload under AddressSanitizer and a targeted workload under Miri",
    text=("About 50 valid seed files of every layout and codec are mutated by boundary-value substitution into every field of the reference encoder's "
          "field map (complete in thorough), pairwise substitution, byte-level havoc and 14 amplifier families; every input is opened (also as a fragment "
          "against opened init segments) and every public read-side accessor is called under a panic hook, in the overflow-checked and the release "
          "profile. Worker deaths (allocation abort, stack overflow, CPU watchdog) are attributed to the journalled open case."),
    note="Inputs are handed over with their true length. A per-case CPU watchdog (RLIMIT_CPU re-armed per case) turns a hang into an attributed death.",
    ref="5 (C06), Appendix C",
)
CHECKS["C07"] = dict(
    category="exploration",
    technique="instrumented stream with per-call op/byte budgets, thread CPU clock (min of 3), doubling test over amplifier families at n,2n,4n,8n",
    text=("Liveness is restated as bounded progress: per call at most 4000+16n stream operations, 1 MiB+16n bytes and 50 ms+2us*n CPU; the stream "
          "returns an error when a budget is exhausted so that a non-terminating parse ends with evidence. A doubling test over 14 amplifier families "
          "detects super-linear growth that stays below the absolute budgets. Observed maxima (about 1 op and 1 byte per input byte) are reported."),
    note="Budget constants are >= 15x the worst ratio observed on the corpus after the repairs; CPU verdicts need the minimum of three runs to exceed the limit.",
    ref="5 (C07), 1",
)
CHECKS["C08"] = dict(
    category="exploration",
    technique="counting global allocator (peak live bytes and largest single request per call) over the hostile corpus; refused >1 GiB requests attributed through the journal",
    text=("Every library call on every hostile input is bracketed by a counting allocator: peak <= 64 KiB + 64n and largest request <= 64 KiB + 16n. "
          "Requests above 1 GiB are recorded and refused so that the resulting abort is attributed to its input instead of exhausting the machine."),
    note="Release profile. The counting allocator is the harness's global allocator (feature track-alloc).",
    ref="5 (C08)",
)

CHECKS["C10"] = dict(
    category="fault_enumeration",
    technique="single-fault injection at every stream-call index (reader: read/seek errors; muxer: write/seek errors and zero-length writes); 1-byte / random short transfers and Interrupted injection compared with the plain run",
    text=("For each explored file and muxing history the fault-free run counts the K stream calls and the run is repeated for every k < K with "
          "exactly one fault, so the enumeration of fault points is complete per subject. The call in progress must return Error::IoError. Short "
          "transfers and interrupted calls must leave the full observation transcript (reader) or the output bytes (muxer) unchanged."),
    note="One fault per run. Subjects are the valid seed corpus and generated histories; completeness is per subject, subjects are sampled.",
    ref="5 (C10)",
)
CHECKS["C11"] = dict(
    category="fault_enumeration",
    technique="every cut position of every corpus file and of thousands of generated movies (stbl order permuted in half); prefix results compared with the library's own answers on the complete file",
    text=("Every proper prefix (all cut positions; strided inside large media data in the quick tier only) of about 50 valid files in every layout is "
          "opened with its own length under a stream budget; when it opens, every sample of the complete file is read and must be an error/absence or "
          "equal in bytes and timing to the complete file's sample."),
    note="Metamorphic reference: the complete file read by the same library. Sync flags not compared.",
    ref="5 (C11), 8.3",
)
CHECKS["C15"] = dict(
    category="exploration",
    technique="history-relative call schedules (incl. transient I/O errors) on one long-lived reader versus single calls on fresh readers; segment readers opened through parents with different histories; repeated muxing in-process, across a second boundary and in a separate process; eightfold re-open",
    text=("Schedules of 200-2000 mixed calls, including failing ones on damaged files, are replayed on one reader and each result compared with a "
          "fresh reader asked once; muxing histories are repeated in the same and in another process and outputs compared; each subject is opened twice "
          "and the parsed structures compared."),
    note="The fresh-reader answer is the reference; its correctness is decided by C03/C09.",
    ref="5 (C15)",
)

PENDING_REASON = "monitor not yet registered in this commit (implementation in progress, see DESIGN.md section 11); not claimed until its check is silent on the unchanged tree"

def mk():
    checks = []
    for pid in ALL:
        if pid not in CHECKS:
            continue
        c = CHECKS[pid]
        checks.append({
            "property_id": pid,
            "quick_cmd": f"./check {pid} quick",
            "thorough_cmd": f"./check {pid} thorough",
            "evidence_file": f"/verif/evidence/{pid}.json",
            "replay_cmd_template": "./check replay {path}",
            "engine": "mp4verif",
            "level_claimed": {"category": c["category"], "text": c["text"], "design_ref": c["ref"]},
            "level_note": c["note"],
            "technique": c["technique"],
        })
    na = [{"property_id": p, "reason": PENDING_REASON} for p in ALL if p not in CHECKS]
    return {
        "version": 1,
        "setup_cmd": "./check setup",
        "hooks": {
            "guard": "verif-hooks (cargo feature of the mp4 crate, off by default)",
            "enable": "the harness crate /verif/harness depends on mp4 = { path = \"/repo\" } with feature hooks = [\"mp4/verif-hooks\"] (default on)",
            "baseline_off_cmd": "cd /repo && cargo test --workspace --no-fail-fast --offline",
            "source_commits": ["55a52a6"],
            "add_only": True,
        },
        "engines": [{
            "name": "mp4verif",
            "path": "/verif/harness",
            "serves_properties": sorted(CHECKS.keys()),
            "kind_free_text": "Rust harness (path dependency on /repo) with instrumented streams, counting allocator, panic monitor, independent reference codec and model; driven by the python3 script ./check which shards work over 16 processes, merges observations and writes evidence",
        }],
        "checks": checks,
        "not_applicable": na,
        "notes": "Runtime monitoring only. See DESIGN.md. Known findings: KNOWN_FINDINGS.txt.",
    }

MANIFEST = mk()
