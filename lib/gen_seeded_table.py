#!/usr/bin/env python3
"""Regenerate the 'seeded changes' table of DESIGN.md (section 12.5) from /verif/seeded/*/meta.json."""
import glob, json, os, re
ROOT = os.path.dirname(os.path.dirname(os.path.abspath(__file__)))
rows = []; caught_own = missed_own = caught_after = 0; special = []
for d in sorted(glob.glob(os.path.join(ROOT, "seeded", "*"))):
    mp = os.path.join(d, "meta.json")
    if not os.path.exists(mp): continue
    m = json.load(open(mp)); name = os.path.basename(d); pid = m["breaks_property"]
    # one-line description: first heading / first sentence of the agent's note
    desc = m.get("summary", "")
    if not desc and os.path.exists(os.path.join(d, "note.md")):
        txt = open(os.path.join(d, "note.md")).read()
        lines = [l.strip("# ").strip() for l in txt.splitlines() if l.strip()]
        desc = (lines[0] if lines else "")[:150]
    res = []
    own = None
    for k, v in sorted(m.get("checks_run", {}).items()):
        cid, tier = k.split(":")
        mark = {"caught": "**caught**", "missed": "missed", "inconclusive": "inconclusive"}[v["verdict"]]
        rule = v.get("first_rule", "").split(":", 1)[-1]
        res.append(f"{cid} {mark}" + (f" (`{rule}`)" if rule and v["verdict"] == "caught" else "") + ("" if tier == "quick" else f" [{tier}]"))
        if cid == pid:
            own = v["verdict"] if own != "caught" else own
            if m.get("first_measurement", {}).get(k) == "missed" and v["verdict"] == "caught":
                res[-1] = res[-1].replace("**caught**", "missed at first measurement, **caught** after the strengthening", 1)
    if own == "caught" and m.get("first_measurement"): caught_after += 1
    elif own == "caught": caught_own += 1
    elif own is not None:
        missed_own += 1; special.append(name)
    if m.get("status_at_head"):
        res.append("*" + m["status_at_head"].split(".")[0] + "; see meta.json*")
    files = ", ".join(sorted(set(os.path.basename(f) for f in m.get("files", []))))
    rows.append(f"| `{name}` | {pid} | {files} | {desc.replace('|','/')} | {'; '.join(res)} | {m.get('strengthening','')} |")
out = ["Every change below was produced by an independent sub-agent that was given only the text of one property and a scratch",
       "worktree (nothing from /verif), and was **confirmed by me in a separate scratch worktree** before use: the diff touches only",
       "`src/`, applies to the pristine HEAD, the pinned 63 tests pass with it, and its demonstration fails with it and passes without it.",
       "Checks were then run against it with `lib/seeded.py` (evidence redirected, `/repo` restored afterwards). Patch, demonstration,",
       "the agent's note and `meta.json` (what it needs to manifest, what I ran, verdicts) are kept under `/verif/seeded/<id>/`.", "",
       f"Summary (quick tier): {len(rows)} confirmed changes. The check of the targeted property caught {caught_own} at the first measurement, "
       f"{caught_after} more only after a strengthening made because of the miss (marked in the table), and does not catch {missed_own} "
       f"({', '.join('`'+x+'`' for x in special)}; each explained in its row: one is no longer a violation at HEAD because a later repair removed the second site it needed; one acts only after a sink error, where its property promises nothing, and was overwritten by a later repair; the others act only in the territory of a neighbouring property, which catches them - outputs above 4 GiB (C13) or a sink that takes short writes (C10)). "
       "Several strengthenings were made from the agents' "
       "descriptions *before* measuring the previous version; those rows say so and are counted as caught, not as 'caught after a miss'.", "",
       "| change | targets | files | what it is | verdicts | strengthening made because of it |", "|---|---|---|---|---|---|"] + rows
txt = "\n".join(out)
p = os.path.join(ROOT, "DESIGN.md"); s = open(p).read()
beg = s.index("### 12.5 Seeded changes: which check catches which") + len("### 12.5 Seeded changes: which check catches which")
end = s.index("### 12.6 ")
s = s[:beg] + "\n\n" + txt + "\n\n" + s[end:]
open(p, "w").write(s)
print(f"{len(rows)} rows; caught at once {caught_own}, after strengthening {caught_after}, not caught {missed_own} {special}")
