#!/usr/bin/env python3
"""Run checks against a deliberately broken /repo without touching /verif/evidence.

  lib/mutant.py <patch.diff> <ID>[,<ID>...] [quick|thorough]

Applies the patch to /repo (git apply), verifies that it compiles and that the pinned 63 tests
still pass, runs the named checks with evidence and replays redirected to a scratch directory,
and ALWAYS restores /repo (git checkout -- .) afterwards. Prints one line per check:
  <ID> caught|missed|inconclusive (exit status, first violated rule).
"""
import json, os, subprocess, sys, tempfile, glob, shutil
ROOT = os.path.dirname(os.path.dirname(os.path.abspath(__file__)))
patch = os.path.abspath(sys.argv[1]); ids = sys.argv[2].split(","); tier = sys.argv[3] if len(sys.argv) > 3 else "quick"
def sh(cmd, **kw): return subprocess.run(cmd, shell=True, capture_output=True, text=True, **kw)
assert sh("git -C /repo status --porcelain").stdout.strip() == "", "/repo has uncommitted changes"
scratch = tempfile.mkdtemp(prefix="verif-mutant-")
env = dict(os.environ, VERIF_EVIDENCE_DIR=os.path.join(scratch, "evidence"), VERIF_REPLAYS_DIR=os.path.join(scratch, "replays"))
rc_all = 0
try:
    r = sh(f"git -C /repo apply {patch}")
    if r.returncode != 0:
        print("patch does not apply:", r.stderr.strip()); sys.exit(2)
    t = sh(os.path.join(ROOT, "lib/repotest.sh")).stdout
    tests_ok = t.count("ok.") == 3 and "FAILED" not in t
    print("pinned tests with the change:", "pass" if tests_ok else "FAIL -> not a valid seeded change: " + t.strip()[:200])
    for pid in ids:
        r = subprocess.run([os.path.join(ROOT, "check"), pid, tier], capture_output=True, text=True, env=env, cwd=ROOT)
        rule = ""
        reps = sorted(glob.glob(os.path.join(scratch, "replays", "*", "*.json")))
        if reps:
            d = json.load(open(reps[0])); rule = f"{d.get('property')}:{d.get('rule')}"
            for f in reps: os.remove(f)
        verdict = {0: "missed", 1: "caught", 2: "inconclusive"}.get(r.returncode, f"exit {r.returncode}")
        print(f"{pid} {verdict} {rule}  | {r.stdout.strip().splitlines()[-1] if r.stdout.strip() else ''}")
finally:
    sh("git -C /repo checkout -- .")
    left = sh("git -C /repo status --porcelain").stdout.strip()
    print("/repo restored" if not left else "WARNING /repo not clean: " + left)
    shutil.rmtree(scratch, ignore_errors=True)
