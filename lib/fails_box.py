#!/usr/bin/env python3
import json,glob,collections,sys
d=sorted(glob.glob('/verif/harness/target/runs/%s-*'%sys.argv[1]))[-1]
cnt=collections.Counter(); ex={}
for f in glob.glob(d+'/*/shard_*.jsonl'):
    for line in open(f):
        try: r=json.loads(line)
        except Exception: continue
        if r.get('t')!='fail': continue
        det=r['detail']; inner=det.get('detail',det)
        key=(det.get('box'), r['rule'], str(inner.get('err',''))[:90])
        cnt[key]+=1; ex.setdefault(key,(r['case'],det.get('shape'),json.dumps(inner)[:int(sys.argv[2]) if len(sys.argv)>2 else 400]))
for k,n in sorted(cnt.items(), key=lambda x:str(x[0])): print(n,k,'\n    ',ex[k])
