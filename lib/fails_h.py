#!/usr/bin/env python3
"""Summarise hostile-input (C06/C07/C08) failure records of the latest kept run dir (development aid)."""
import json,glob,collections,sys,os
cands=sorted(glob.glob('/verif/harness/target/runs/%s-*'%sys.argv[1]), key=os.path.getmtime)
if not cands:
    print('no kept run directory for', sys.argv[1], '(a run that held cleans up after itself)'); sys.exit(0)
d=cands[-1]
print("run dir:", d)
cnt=collections.Counter(); ex={}
deaths=[]
for f in glob.glob(d+'/*/shard_*.jsonl'):
    prof=f.split('/')[-2]
    last_begin=None; ended=True; saw_sum=False
    for line in open(f):
        try: r=json.loads(line)
        except Exception: continue
        t=r.get('t')
        if t=='begin': last_begin=r.get('case'); ended=False
        elif t=='end': ended=True
        elif t=='sum': saw_sum=True
        if t!='fail': continue
        det=r['detail']
        key=(prof, r['rule'], det.get('call','').split(':')[-1], det.get('site') or det.get('family') or '', str(det.get('msg',''))[:70])
        cnt[key]+=1; ex.setdefault(key,(r['case'],str(det.get('mutation'))[:170], {k:v for k,v in det.items() if k not in ('input_hex','mutation','site','msg','call','more','input_len')}))
    if not saw_sum: deaths.append((prof, os.path.basename(f), last_begin))
for k,n in cnt.most_common(): print(n,k,'\n    ',ex[k])
for d in deaths: print("WORKER DIED (no summary):", d)
