#!/usr/bin/env python3
"""Confirm a sub-agent's seeded change independently and, if confirmed, run checks against it.

  lib/seeded.py <ID> <a|b> <check ids comma separated> [quick|thorough]

Reads /tmp/wt-<ID>/out/<a|b>.{diff,md} and <a|b>_demo.rs. Confirmation happens in a scratch
worktree /tmp/confirm-wt (never in /repo): the diff applies to pristine HEAD, the pinned suite
passes with it, the demo FAILS with it and PASSES without it. Only then are the named checks run
against it (lib/mutant.py: applied to /repo, evidence redirected, always reverted) and the
result stored under /verif/seeded/<ID>-<a|b>/ (patch.diff, demo.rs, note.md, meta.json).
"""
import fcntl, json, os, shutil, subprocess, sys, time
ROOT = os.path.dirname(os.path.dirname(os.path.abspath(__file__)))
pid, v, checks = sys.argv[1], sys.argv[2], sys.argv[3]
tier = sys.argv[4] if len(sys.argv) > 4 else "quick"
# a later wave: SEEDED_SRC=/tmp/w3-C06/out SEEDED_NAME=C06-c lib/seeded.py C06 a C06
src = os.environ.get("SEEDED_SRC") or f"/tmp/wt-{pid}/out"
store_name = os.environ.get("SEEDED_NAME") or f"{pid}-{v}"
diff, demo, note = f"{src}/{v}.diff", f"{src}/{v}_demo.rs", f"{src}/{v}.md"
# SEEDED_SLOT=<n> gives this run its own scratch worktree and build directory, so that several
# confirmations can run side by side; the step that patches /repo is serialised by a file lock.
SLOT = os.environ.get("SEEDED_SLOT", "")
WT = "/tmp/confirm-wt" + SLOT
env = dict(os.environ, CARGO_NET_OFFLINE="true", CARGO_TARGET_DIR="/tmp/confirm-target" + SLOT)
def sh(cmd, **kw): return subprocess.run(cmd, shell=True, capture_output=True, text=True, env=env, **kw)
for f in (diff, demo): assert os.path.exists(f), f"missing {f}"
if not os.path.isdir(WT):
    with open("/tmp/verif-wtadd.lock", "w") as lk:  # concurrent `git worktree add` calls collide
        fcntl.flock(lk, fcntl.LOCK_EX)
        r = sh(f"git -C /repo worktree add -q --detach {WT} HEAD"); assert r.returncode == 0, r.stderr
sh(f"git -C {WT} checkout -q --detach $(git -C /repo rev-parse HEAD) && git -C {WT} checkout -- . && git -C {WT} clean -fdq tests src")
conf = {}
# touches only library source?
files = [l[6:].strip() for l in open(diff) if l.startswith("+++ b/")]
conf["files"] = files
conf["only_src"] = all(f.startswith("src/") for f in files)
conf["applies"] = sh(f"git -C {WT} apply --check {diff}").returncode == 0
def suite():
    t = sh(f"cd {WT} && cargo test --workspace --no-fail-fast --offline 2>&1 | grep -E '^test result|FAILED|^error'").stdout
    return t.count("ok.") == 3 and "FAILED" not in t and "error" not in t, t.strip()
def rundemo():
    shutil.copy(demo, f"{WT}/tests/zz_seeded_demo.rs")
    r = sh(f"cd {WT} && cargo test --offline --test zz_seeded_demo 2>&1 | grep -E '^test result|panicked|^error' | head -5")
    os.remove(f"{WT}/tests/zz_seeded_demo.rs")
    out = r.stdout.strip()
    return ("test result: ok" in out and "FAILED" not in out), out
if conf["applies"]:
    conf["demo_passes_without_change"], conf["demo_out_pristine"] = rundemo()
    sh(f"git -C {WT} apply {diff}")
    conf["suite_passes_with_change"], conf["suite_out"] = suite()
    ok, out = rundemo()
    conf["demo_fails_with_change"], conf["demo_out_changed"] = (not ok), out
    sh(f"git -C {WT} checkout -- . && git -C {WT} clean -fdq tests src")
confirmed = all(conf.get(k) for k in ("only_src", "applies", "demo_passes_without_change", "suite_passes_with_change", "demo_fails_with_change"))
print(f"{store_name}: confirmation:", {k: conf.get(k) for k in ("only_src", "applies", "demo_passes_without_change", "suite_passes_with_change", "demo_fails_with_change")})
results = {}
if confirmed:
    with open("/tmp/verif-mutant.lock", "w") as lk:
        fcntl.flock(lk, fcntl.LOCK_EX)
        r = subprocess.run([os.path.join(ROOT, "lib/mutant.py"), diff, checks, tier], capture_output=True, text=True, cwd=ROOT)
    print(r.stdout.strip())
    for line in r.stdout.splitlines():
        p = line.split()
        if len(p) >= 2 and p[0].startswith("C") and p[1] in ("caught", "missed", "inconclusive"):
            results[p[0]] = {"verdict": p[1], "first_rule": p[2] if len(p) > 2 and p[2] != "|" else ""}
    out = os.path.join(os.environ.get("VERIF_SEEDED_OUT") or os.path.join(ROOT, "seeded"), store_name)
    os.makedirs(out, exist_ok=True)
    shutil.copy(diff, f"{out}/patch.diff"); shutil.copy(demo, f"{out}/demo.rs")
    if os.path.exists(note): shutil.copy(note, f"{out}/note.md")
    meta_path = f"{out}/meta.json"
    meta = json.load(open(meta_path)) if os.path.exists(meta_path) else {}
    meta.update({"breaks_property": pid, "variant": store_name.split("-")[-1], "wave": os.environ.get("SEEDED_WAVE", "1"), "source": "independent sub-agent given only the property text and a scratch worktree",
                 "base_commit": sh("git -C /repo rev-parse --short HEAD").stdout.strip(), "files": files,
                 "confirmed_by_me": {"scratch_worktree": WT, **{k: conf[k] for k in conf if k not in ("files",)}},
                 "what_it_needs_to_manifest": meta.get("what_it_needs_to_manifest", "see note.md"),
                 "confirmed_at": time.strftime("%Y-%m-%dT%H:%M:%SZ", time.gmtime())})
    meta.setdefault("checks_run", {})
    for k, val in results.items(): meta["checks_run"][f"{k}:{tier}"] = val
    json.dump(meta, open(meta_path, "w"), indent=1)
    print("stored", out)
else:
    print("NOT CONFIRMED - not kept:", json.dumps(conf, indent=1)[:1500])
