#!/usr/bin/env python3
"""Summarise failure records of the most recent kept run directory (development aid)."""
import json, glob, os, sys, collections
base = os.path.join(os.path.dirname(os.path.dirname(os.path.abspath(__file__))), "harness/target/runs")
dirs = sorted(glob.glob(base + "/*"), key=os.path.getmtime)
if len(sys.argv) > 1:
    dirs = [d for d in dirs if sys.argv[1] in os.path.basename(d)]
d = dirs[-1]
print("run dir:", d)
cnt = collections.Counter(); ex = {}
for f in glob.glob(d + "/*/shard_*.jsonl"):
    prof = f.split("/")[-2]
    for line in open(f):
        try: r = json.loads(line)
        except Exception: continue
        if r.get("t") != "fail": continue
        det = r.get("detail", {})
        inner = det.get("detail", det)
        key = (prof, r["rule"], str(inner.get("site") or inner.get("res") or inner.get("err") or "")[:110], str(inner.get("msg",""))[:80])
        cnt[key] += 1
        ex.setdefault(key, (r["case"], json.dumps(det)[:int(os.environ.get("W","500"))]))
for k, n in cnt.most_common():
    print(n, k, "\n    e.g.", ex[k][0], ex[k][1])
