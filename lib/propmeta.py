"""Per-property metadata used by ./check (levels, profiles, evidence wording)."""

TRUSTED = "independent reference codec / model in harness/src (refenc.rs, refdec.rs, model.rs), written from the ISO/IEC 14496 specifications"

PROPS = {
    "C16": {
        "level": "exploration",
        "profiles": ["rel"],
        "exhaustive": {"quick": False, "thorough": True},
        "min_evals": {"quick": 1 << 32, "thorough": 1 << 32},
        "rule": ("every point of every finite mapping domain is executed through the real conversion functions and "
                 "compared with tables re-typed from the specifications: all 2^32 codes for u32<->FourCC<->BoxType, "
                 "DataType, TrackType-from-FourCC and the 16.16 wrapper; all 2^16 packed language codes through the mdhd "
                 "codec and all 26^3 three-letter codes; all 2^16 (profile, compatibility) pairs; all u8 for AOT / "
                 "frequency index / channel configuration; every raw 4-bit frequency index reference-encoded into an esds (the escape value 15 followed by each of the 13 table rates and 7 other rates, 5 object types) and decoded: the decoded index must be the raw one and be accepted exactly for 0..=12; all 2^16 raw 8.8 values; all strings of length <= 4 over a "
                 "40-symbol alphabet for the kind names plus a dictionary of ~110 real-world names of the same kinds (all to be rejected). Textual FourCC form: all 2^32 codes in thorough, every 61st "
                 "code plus every table code and its 32 single-bit neighbours in quick (the one non-exhaustive stratum). "
                 "distinct_nontrivial counts domain points that lie in a defining table, are a single-bit neighbour of a "
                 "table code, or belong to one of the small (<= 2^16) domains, each counted once."),
        "assumptions": [
            "oracle tables (four-character codes from the MP4 registration authority list, ISO/IEC 14496-3 tables 1.17/1.18/1.19, ISO-639-2/T packing, H.264 Annex A constraint_set1_flag = bit 6) are typed independently in harness/src/props/c16.rs",
            "textual losslessness is only demanded of codes whose four bytes are valid UTF-8 (a &str cannot hold the others); DESIGN.md 8.3",
            "8.8 signed wrapper: value() is the integer part, i.e. the value rounded towards zero (DESIGN 8.3)",
        ],
    },

    "C01": {
        "level": "exploration",
        "profiles": ["chk", "rel"],
        "death_is_violation": True,
        "min_evals": {"quick": 250000, "thorough": 4000000},
        "rule": ("muxer call histories (add_track / write_sample / rejected write_sample / write_end) are executed against the real "
                 "Mp4Writer and the output is read back with the real Mp4Reader and compared sample by sample (bytes, duration, "
                 "rendering offset, sync, start time, count, ids past the end) with a sequential model; writer-state hook snapshots "
                 "are checked after every call; histories with rejected calls are re-run without them and the outputs compared byte for byte. "
                 "Strata: bounded-exhaustive (1-2 tracks, 54-symbol alphabet size{0,1,2} x delta{0,1,timescale} x cts{0,5,-5} x sync, all "
                 "histories of length <= 2 quick / <= 3 thorough) and seeded random (1-5 tracks of all five media kinds, 0-400 samples, "
                 "biased sizes/durations/offsets/timescales, four interleavings, lazily added tracks, codec-shaped sample payloads (ADTS headers, start codes, length prefixes), parameter sets partly in Annex B form, rejected write_sample AND rejected add_track calls interleaved); stratum `beyond` (24 000 / 300 000 histories with the movie timescale near 2^32, track timescales 1-3 and durations near 2^32, i.e. converted durations beyond 64 bits): no panic, calls that returned an error are removed from the model and must have left no trace, the accepted samples must read back. A case is non-trivial when some track "
                 "has >= 2 samples; distinct = distinct abstract shape (per track: media kind, sample-count bucket, #distinct sizes, #zero "
                 "sizes, position of first non-zero offset, first sync / sync class, #chunk flushes, trailing partial chunk; #rejected calls)."),
        "assumptions": [
            "sequential model of the muxer API in harness/src/muxdrive.rs (a write is accepted iff its track id names a track added earlier)",
            "histories whose converted track duration would not fit a 64-bit header field are re-drawn in the random stratum (C02's structure oracles cannot judge them); stratum `beyond` covers them with the sample-level oracles only",
            "both build profiles (overflow-checked and release) are exercised",
        ],
    },
    "C02": {
        "level": "exploration",
        "profiles": ["chk"],
        "death_is_violation": True,
        "min_evals": {"quick": 250000, "thorough": 3500000},
        "rule": ("same history space as C01; every output is decoded by the independent decoder harness/src/refdec.rs (no library code): "
                 "top-level tiling, ftyp first, exactly one moov and one mdat, strict container sizes, mdat size form and extent, per-track "
                 "table expansion (stts/ctts/stsc/stsz/stss/stco|co64) against the model, chunk containment and pairwise disjointness, bytes at "
                 "computed offsets, mdhd/tkhd/mvhd durations and versions; one history in sixteen is also muxed into a sink that already holds longer content and the range written must equal the output on an empty sink. Non-trivial / distinct as for C01."),
        "assumptions": [
            "trusted base: harness/src/refdec.rs written from ISO/IEC 14496-12 (validated against the canned files and the reference encoder)",
            "'within one tick' is read as: tkhd duration within [floor-1, ceil+1] of the exact rational sum*movie_ts/track_ts",
        ],
    },
    "C14": {
        "level": "exploration",
        "profiles": ["chk"],
        "death_is_violation": True,
        "min_evals": {"quick": 450000, "thorough": 6000000},
        "rule": ("random Mp4Config/TrackConfig values over the documented domain followed by a short random sample history, plus the full "
                 "46 x 13 x 7 AAC (object type, frequency index, channel configuration) grid and three-letter languages (every 7th quick, all "
                 "26^3 thorough); mux, reopen with the real reader (every other output through a source that returns short reads), compare every accessor with the configuration and the durations with the exact "
                 "rational. Distinct = history shape as in C01 (non-trivial: >= 2 samples on a track)."),
        "assumptions": [
            "documented domain: timescales >= 1, SPS/PPS >= 4 bytes, lowercase three-letter languages, any brands/dimensions/bitrate",
            "duration tolerance: one reported unit plus one tick of the header field it derives from (DESIGN 8.3)",
            "random mode keeps AAC object types < 32 (known finding K1); the grid exercises them and attributes audio_profile mismatches for AOT >= 32 to K1 only",
        ],
    },

    "C17": {
        "level": "exploration",
        "profiles": ["chk", "rel"],
        "death_is_violation": True,
        "min_evals": {"quick": 180000, "thorough": 3000000},
        "rule": ("documented-domain histories are perturbed into the degenerate domain by 1-3 of 14 argument classes (movie/track timescale 0, "
                 "weird language strings, parameter-set lengths 0..3 and >= 65535, all durations u32::MAX, extreme offsets, a 16 MiB+ sample, "
                 "write_end twice, writes/add_track after write_end, no tracks, unknown track ids, missing write_end, dimension extremes) plus "
                 "directed boundary histories; every call runs under a panic monitor in both build profiles; when every call returned Ok and the "
                 "history ends with write_end the C01 and C02 oracles are applied to the calls the muxer accepted (add_track calls whose preconditions "
                 "are violated on purpose must fail and leave no trace). One history in three is executed once more on a sink that fails once; the "
                 "remaining calls are made regardless and none may panic. distinct_nontrivial = distinct (degenerate class, call kind, outcome) "
                 "triples observed."),
        "assumptions": [
            "samples >= 4 GiB (length truncated to u32) are not exercised: a single 4 GiB buffer per case is outside the run budget (DESIGN 7, F35)",
            "the C14 oracle is not applied to degenerate configurations (it is stated for the documented domain only)",
        ],
    },

    "C13": {
        "level": "exploration",
        "profiles": ["chk"],
        "death_is_violation": True,
        "min_evals": {"quick": 20, "thorough": 80},
        "rule": ("the real muxer writes into a sparse Write+Seek+Read stream (payload writes are verified against their generator while being "
                 "written and stored as extents). Scenarios place the media-data size at 2^32-1 / 2^32 (+1, -2, far above in thorough), a chunk offset "
                 "at 2^32-1 / 2^32 / 2^32+1 both by volume and by starting the output at stream position ~2^32, the media-header duration at "
                 "2^32-1 / 2^32 / 2^32+1, track/movie header durations across 2^32 independently of the media header via timescale ratios, and "
                 "(thorough) a single chunk > 4 GiB; for every media kind; plus 20 000 (thorough 200 000) generated no-volume scenarios (boundary placed by the start position / by durations and timescales); half of all scenarios mux into a sink that takes small writes 1, 3 or 7 bytes at a time. Outputs are judged by the independent decoder (64-bit form iff needed, no "
                 "truncated field, versions) and read back completely through the real reader. distinct_nontrivial = distinct scenarios plus "
                 "distinct (scenario family, boundary side) pairs."),
        "assumptions": [
            "a stream that starts at a non-zero position is opened with the reader positioned at that start and the absolute end position as size",
            "bulk samples are 64 MiB synthetic payloads (16-byte tag + shared filler) so that 4 GiB costs memory bandwidth only",
        ],
    },

    "C03": {
        "level": "exploration",
        "profiles": ["chk"],
        "death_is_violation": True,
        "exhaustive": {"quick": False, "thorough": False},
        "min_evals": {"quick": 40000, "thorough": 300000},
        "rule": ("files are synthesised by the independent reference encoder from a logical movie and a physical layout; the library only reads. "
                 "Exhaustive stratum: one track of N = 0..6 (thorough 0..7) samples x every composition of N into chunks x every subset of optional "
                 "stsc run breaks, crossed with stco/co64, fixed/varying/zero sizes, ctts absent/v0/v1, stss absent/present, split or maximal "
                 "stts/ctts runs (6 dimension points per composition quick, all 48 thorough). Random stratum: 1-3 tracks with interleaved chunks, up to "
                 "5000 samples, gaps, moov before/after mdat, 64-bit and size-0 mdat; one movie in four carries the 64-bit size header on a pseudo-random "
                 "fifth of the boxes below moov (table boxes included), half of those also 1-3 unknown boxes (free / skip / wide / uuid / made-up); split stts / ctts tables may carry empty runs. Virtual-large stratum: a real movie header followed by a generated > 4 GiB tail, one "
                 "chunk whose contents cross 2^32 (constant size and size table, chunk offset below / above 2^32). For every id in 0..=N+2 (+ far beyond) "
                 "sample_count, sample_offset and read_sample (bytes compared, start, delta, offset, sync) are compared with the model - in increasing order, "
                 "then again on the same reader backwards per track and in a shuffled order interleaving the tracks; one movie in three once more with one chunk offset moved strictly inside the preceding chunk of the same track (chunks sharing bytes; expected bytes taken from the file at the formula offsets). distinct = distinct per-track "
                 "layout shape (sample-count bucket, chunk composition for N<=6, #stsc runs, offset form, size mode, ctts/stss shape, #zero sizes); "
                 "non-trivial = track with >= 2 samples."),
        "assumptions": [
            "trusted base: harness/src/refenc.rs + model.rs (reference encoder and expected answers), cross-validated by refdec.rs",
            "version-0 ctts offsets are generated < 2^31 (the statement does not say how an unsigned offset >= 2^31 is reported)",
        ],
    },

    "C09": {
        "level": "exploration",
        "profiles": ["chk"],
        "death_is_violation": True,
        "min_evals": {"quick": 250000, "thorough": 3000000},
        "rule": ("fragmented movies are synthesised by the reference encoder: 1-6 fragments, 1-3 tracks, 1-3 track fragments per movie fragment "
                 "(also two of the same track), 0-40 samples per run (every 4000th movie: up to 1500), track fragments without any run box, 64-bit headers on boxes inside moof (one movie in six), hybrid movies whose movie box lists samples of its own (one in nine), base-data-offset explicit / default-base-is-moof / neither, tfhd default duration "
                 "or not, per-sample durations or not, composition offsets or not, tfdt v0/v1 (values beyond 2^32), data_offset absent / positive / "
                 "negative, trex defaults, optional styp/mehd; exhaustive over the 3 x 2^6 flag lattice for 1-2 fragments x 0-2 samples. Each movie is "
                 "read as one stream, as init segment + media segment (read_fragment_header), and with the media segment as a byte range at a non-zero position of a larger buffer, and every sample's offset, bytes, start time, "
                 "duration and composition offset is compared with the model. distinct = distinct run shapes (fragment index class, base mode, the "
                 "five flags, offset sign, run-length class, trex default present); non-trivial = run with >= 2 samples or in a later fragment."),
        "assumptions": [
            "one run per track fragment, per-sample sizes and a decode-time box always present (as the statement requires); sync flags are not compared",
            "random mode gives all tracks the same trex defaults (known finding K2); a directed probe exercises K2 every run",
        ],
    },

    "C12": {
        "level": "exploration",
        "profiles": ["chk"],
        "death_is_violation": True,
        "min_evals": {"quick": 150000, "thorough": 2400000},
        "rule": ("logical movies from the C03 and C09 generators are realised in a canonical layout and in layout variants produced by tree "
                 "transformations of the reference encoder's box tree: a free/unknown box (32- or 64-bit header) inserted at every top-level position and "
                 "at every child slot of every iterating container (moov, trak, mdia, minf, stbl, dinf, udta, meta, ilst, ilst items, moof, traf, mvex, "
                 "avc1, mp4a); order-preserving sibling permutations; a 64-bit header on every single box (including containers, moof, mdat); 1-16 spare "
                 "bytes after the last field of every fixed-layout/table box. For each subject every single transformation is applied (complete) plus random "
                 "combinations of 2-6. Oracle: per-sample answers equal the model's for the new layout (offsets shifted exactly) and the accessor transcript "
                 "(brands, durations, per-track accessors, codec parameters, metadata) equals the canonical one. distinct_nontrivial = distinct "
                 "(transformation kind, target box path, slot) triples exercised."),
        "assumptions": [
            "only containers that iterate over children receive inserted boxes (stsd, edts, hev1, vp09, dref read a fixed child); spare bytes only where the payload is not 'the rest of the box' (DESIGN 8.3)",
            "fragmented subjects are checked in both delivery modes; sync flags of fragmented tracks are not compared",
        ],
    },
    "C18": {
        "level": "exploration",
        "profiles": ["chk"],
        "death_is_violation": True,
        "min_evals": {"quick": 200000, "thorough": 3000000},
        "rule": ("reference-encoded movies with moov/udta/meta/ilst: every subset of the four items x handler mdir / other x placement (udta/meta, moov/meta, "
                 "udta without meta, no udta), payload lengths 0/1/255/65536/random, year as decimal text or 4-byte binary, multi-byte UTF-8 text, "
                 "0-3 unrelated items (arbitrary data types and contents, also header-only 8-byte items and raw non-`data` content; one such item placed first / in the middle / last for every tag subset) before/between/after, year text that is not a decimal number, meta with and without the version/flags word, hdlr first or "
                 "last, one movie in eight with the QuickTime terminator (a 32-bit zero ending udta, half of those with the movie box last so that it ends the file), plus movies without user data. Accessor results are compared with the encoded values. distinct = (subset, handler, placement, header "
                 "form, hdlr position, #extra items, year encoding)."),
        "assumptions": [
            "data types of the four known items are those of the library's table (0, 1, 13, 21); unrelated items may carry any type",
            "a QuickTime-style meta (no version/flags word) is generated with hdlr as first child only (the two forms cannot be told apart otherwise)",
            "duplicate items are not generated (the statement does not define their result); year text that is not a decimal number (empty, letters, dates, sign, overflow) is generated and absence is expected",
        ],
    },

    "C04": {
        "level": "exploration",
        "profiles": ["chk"],
        "death_is_violation": True,
        "min_evals": {"quick": 600000, "thorough": 12000000},
        "rule": ("for each of 48 box types (plus BoxHeader across the 2^32 boundary) the shape space - version 0/1, every combination of flag bits "
                 "gating optional fields (2^5 for tfhd, 2^6+cts for trun), optional children present/absent, list lengths 0/1/2/3/17 - is enumerated "
                 "exhaustively and each shape is filled with boundary-biased random field values (1200 draws per shape quick, 12 000 thorough); one draw "
                 "in 32 is in scale mode (lists of 85-4097 entries, parameter sets up to 65 535 bytes, 300 NAL units per array, payloads up to 70 000 "
                 "bytes); 0-2 random sibling boxes follow the box, and every case is decoded once more with 1-3 sibling boxes BEFORE it (reader positioned at the box). Checks: write_box returns box_size() = bytes written = header size field, header "
                 "fourcc is the type's own code; decoding (BoxHeader::read + read_box) yields an equal value and leaves the stream exactly at the box "
                 "end, from a stream that fills every read and from one that returns short reads (1 / 1-7 / 1-4096 bytes per call); reference and "
                 "64-bit-header encodings that the decoder accepts re-encode to a fixpoint; to_json/summary do not panic. distinct = (box type, shape); "
                 "non-trivial = some optional/variable part present."),
        "assumptions": [
            "representable values: flags consistent with Option fields, list lengths within the width of their count field, strings without interior NUL, bit-packed fields within their widths, stsz.sample_sizes empty when sample_size != 0, AudioSpecificConfig in the 2-byte domain (AOT < 31, frequency index < 15), stsc first_sample consistent with the entries",
            "IlstItemBox has no encoder of its own and is covered through IlstBox",
        ],
    },
    "C05": {
        "level": "exploration",
        "profiles": ["chk"],
        "death_is_violation": True,
        "min_evals": {"quick": 650000, "thorough": 13000000},
        "rule": ("same box/shape/value space as C04 (scale mode included); every case is produced as an abstract field list from which the library value and the reference "
                 "bytes (independent encoder harness/src/refenc.rs, DESIGN Appendix A) derive. Checks: write_box(value) equals the reference bytes "
                 "(item-list children compared as a multiset); the reference bytes, their 64-bit-header form, sample entries with a random compressor name, "
                 "hvcC with reserved bits set decode to the same value and leave the stream at the box end. In addition esds boxes over the whole "
                 "AudioSpecificConfig domain (object types 1-94 incl. the escape form, all frequency indices, padded 1-4 byte descriptor lengths at each of "
                 "the four levels) are decoded field by field, and whole reference files with AAC tracks in ISO, QuickTime v1 and QuickTime wave forms are "
                 "opened and the codec-parameter accessors compared. distinct = (box type, shape) plus (escape, index-15, padding pattern) classes."),
        "assumptions": [
            "reserved / pre-defined bits are not fields: the reference uses the values the library writes where the specification leaves a choice to the writer (hvcC reserved bits 0) and both values in the decode direction",
            "random mode avoids frequency index 15 (known finding K3); every 7th esds case probes it and attributes only chan_conf mismatches to K3",
        ],
    },

    "C06": {
        "level": "exploration",
        "profiles": ["chk", "rel"],
        "death_is_violation": True,
        # after the primary profiles: the quick-sized workload rebuilt with AddressSanitizer, and
        # the `sanit` workload under the Miri interpreter (16 shards x miri_cases hostile inputs)
        "supplementary": {"thorough": ["asan", "miri"]},
        "miri_cases": 100,
        "min_evals": {"quick": 600000, "thorough": 2000000},
        "rule": ("seed corpus of ~50 valid files (the canned samples, reference-encoded movies of every codec/layout with metadata, edit lists, emsg, "
                 "fragmented streams (their field map covers the movie fragments; every fourth one has track fragments with two runs whose optional columns are complementary) and init+segment pairs, muxer outputs); mutators: single substitution of a boundary-value set (0,1,...,2^W-1, n, "
                 "remaining, box size, +-1/8/16, count that just fits) into every field of the reference encoder's field map (sizes, largesizes, fourccs, "
                 "versions, flags, counts, lengths, offsets, values; all of them in thorough; in quick a 4000-per-seed sample plus the extremes 0 / max-1 / max "
                 "of EVERY field), directed size+count pairs (every count field together with the sizes of its 1..3 innermost enclosing boxes raised to "
                 "~2^24 / 2^31 / 2^32), pairwise substitution of near-by fields, byte-level havoc (flips, runs, deletes, duplicates, splices of two seeds, "
                 "truncation, fourcc swaps), directed size+offset pairs, 20 amplifier families (one of them, many fragments of one sample each without decode-time box, at 16 x the usual sizes, at most 4 MiB), and 40 000 (thorough 200 000) freshly generated plain and fragmented movies, each as a "
                 "file, as media segment against its own initialisation segment, and with one havoc variant. Every input is opened (read_header, and read_fragment_header against three opened initialisation segments) and, when it "
                 "opens, every accessor is called: movie and track accessors, metadata, to_json/summary/box_size of every parsed box, sample_count, "
                 "sample_offset and read_sample for ids 0..16, count-1..count+2, 2^31, 2^32-1 and track ids 0 / present / max+1. A panic hook records "
                 "sites; process deaths are attributed through the journal. Both build profiles. distinct_nontrivial = distinct (field path class, field "
                 "kind, value class) triples substituted plus amplifier (family, size step) pairs. Thorough tier, supplementary (coverage.supplementary): the "
                 "quick-sized workload once more in a build with AddressSanitizer, and a targeted workload (every emsg shape = the crate's only unsafe, "
                 "mux->demux round trips, 1600 hostile reader inputs with every accessor) under the Miri interpreter; a report of either tool is a violation, "
                 "a tool that cannot be run is a note."),
        "assumptions": [
            "inputs are handed to the reader with their true length",
            "stack overflow / allocation aborts are observed as worker death and attributed to the journalled open case",
        ],
    },
    "C07": {
        "level": "exploration",
        "profiles": ["chk"],
        "death_is_violation": True,
        "min_evals": {"quick": 300000, "thorough": 1000000},
        "rule": ("the C06 corpus and mutators under an instrumented stream: per call (open, open-as-fragment, each sample read / accessor group) at "
                 "most 4000 + 16 n stream operations and 1 MiB + 16 n transferred bytes (n = input length; the stream returns an error when exceeded, "
                 "so a reader that loops without consuming input terminates with evidence) and at most 50 ms + 2 us x n thread CPU time, counted only "
                 "if the minimum over three runs exceeds it; 20 amplifier families (many sample description boxes with a huge entry count, many containers with a tiny child, many tracks x many movie fragments, zero-size child in moov/trak/stbl/udta/moof, sub-header-size boxes "
                 "at top level and inside moov, many traks whose parameter-set lengths reach the end of the file, counts of 2^32-1 without payload, "
                 "runs declaring 2^32-1 samples without fields, nested overrun chains, many rewinding meta boxes, many emsg, many sample entries whose "
                 "descriptor chain overruns into the following ones, many track fragments with long runs, many movie fragments of one sample each without a decode-time box - the last family at 16 x the sizes (at most 4 MiB), because its hostile cost is CPU work of a later call only) are emitted at sizes n, 2n, 4n, 8n; between "
                 "consecutive sizes operations and bytes must not grow faster than 1.6 x the size ratio (one step suffices, the counters are deterministic) "
                 "and CPU time (minimum of two sweeps, above a 20 ms floor) must not do so on two consecutive steps (doubling test). Strata and "
                 "distinct_nontrivial as C06."),
        "assumptions": [
            "liveness is restated as bounded progress in logical steps (stream operations, bytes, CPU time) - DESIGN 1 and 5 (C07)",
            "budget constants are at least 3x the worst ratio of any well-formed or honestly malformed input (observed maxima are printed in the evidence)",
            "a pure CPU loop that performs no stream operation is cut by the worker's RLIMIT_CPU watchdog and attributed through the journal",
        ],
    },
    "C08": {
        "level": "exploration",
        "profiles": ["rel"],
        "death_is_violation": True,
        "min_evals": {"quick": 300000, "thorough": 1000000},
        "rule": ("the C06 corpus and mutators under a counting global allocator: per call (open, open-as-fragment, every sample read and accessor group) "
                 "the peak of live heap bytes above the level at call entry must stay <= 64 KiB + 64 n and the largest single request <= 64 KiB + 16 n "
                 "(n = input length); requests above 1 GiB are recorded and refused, the resulting abort is attributed to the journalled case. "
                 "Strata (including the directed size+count pairs, which aim at exactly the guards this property rests on) and distinct_nontrivial as C06; "
                 "observed maxima of peak/n and request/n are reported."),
        "assumptions": [
            "the bound constants leave room for track cloning and Vec growth (observed maxima on valid files are < 8 n)",
            "measured in the release profile (allocation behaviour does not depend on overflow checks)",
        ],
    },

    "C11": {
        "level": "fault_enumeration",
        "profiles": ["chk"],
        "death_is_violation": True,
        "exhaustive": {"quick": False, "thorough": True},
        "min_evals": {"quick": 2000000, "thorough": 18000000},
        "rule": ("the fault is a truncation point. Subjects: 4000 (thorough 40 000) generated movies - plain with 1-3 interleaved tracks and the movie header "
                 "first or last, fragmented as one stream, and media segment + initialisation segment - and every file of the valid seed corpus (canned samples, reference-encoded movies of every codec with "
                 "movie header first or last, 64-bit and size-0 mdat, metadata, emsg, edit lists; fragmented single streams; media segments opened against "
                 "their initialisation segment; muxer outputs) EVERY cut position 0..len is enumerated (files above 20 kB: every byte of the first and last "
                 "4 kB and every 97th byte in between in the quick tier, all bytes in thorough). The prefix is opened with its own length under a stream "
                 "op budget; if it opens, every sample that the complete file yields is read: the result must be an error or absence, or equal in bytes, "
                 "start time, duration and composition offset to the complete file's sample (the library's own answer on the complete file is the "
                 "reference). Panic, budget overrun (hang), a differing Ok(Some), or an existing sample reported as absent without an error is a violation. On an opened prefix the tracks are drained one after the other on ONE reader, so "
                 "failing reads are followed by reads that must still succeed; every other generated plain movie has the children of every stbl permuted. distinct_nontrivial = distinct (file or generated kind, outcome class, "
                 "eighth of the file the cut lies in) with the prefix opened: all samples equal / some equal some failing / none readable."),
        "assumptions": [
            "a prefix may hold fewer complete fragments: reading a sample that is gone must then FAIL WITH AN ERROR (the letter of the statement); Ok(None) for a sample of the complete file is a violation",
            "sync flags are not part of 'bytes and timing' (and depend on the fragment count for fragmented tracks) - DESIGN 8.3",
        ],
    },

    "C10": {
        "level": "fault_enumeration",
        "profiles": ["chk"],
        "death_is_violation": True,
        "exhaustive": {"quick": True, "thorough": True},
        "min_evals": {"quick": 1200000, "thorough": 18000000},
        "rule": ("for each explored reader subject (the valid seed corpus plus 800 / 16 000 generated plain and fragmented movies, one plain movie in eight with an item list in every form of C18 incl. the header-less meta box whose reader rewinds) a fault-free run counts the K stream calls "
                 "(read / seek) of the open call (read_header, or read_fragment_header for media segments) and of each read_sample call (first 6 samples "
                 "of every track); then the run is repeated once for EVERY k < K with a single injected error (its ErrorKind varies over eight kinds with the call and subject index) at call k. For each explored muxer history "
                 "(4000 quick / 60 000 thorough) the K write / seek calls from write_start to write_end are counted and every k < K is repeated with an "
                 "injected error and with a write that returns Ok(0). Oracle: the library call in progress returns Error::IoError - not Ok, not another "
                 "error, no panic - and earlier muxer calls returned what the fault-free run returned. Short transfers: each file is re-read with a "
                 "stream that transfers 1 byte per call, a random 1-7 bytes, and reports Interrupted on a third / half of the calls, and the complete "
                 "observation transcript (all accessors, every sample's offset, timing and bytes) must be identical; each history is re-muxed with the "
                 "same stream behaviours on the write side and the output must be byte-identical. Enumeration of fault indices is complete per subject. "
                 "distinct_nontrivial = distinct (library call, stream op kind hit, fault kind, outcome) tuples observed."),
        "assumptions": [
            "exactly one fault per run; the stream keeps working after it (the statement speaks of any single failing call)",
            "Interrupted is injected on read and write calls only (seek has no retry contract in std::io)",
        ],
    },

    "C15": {
        "level": "exploration",
        "profiles": ["chk"],
        "death_is_violation": True,
        "min_evals": {"quick": 170000, "thorough": 2500000},
        "rule": ("(a) for every file of the seed corpus, and for 39 (thorough 399) damaged variants of each (truncated media data, byte-level havoc) so that "
                 "failing calls occur, one long-lived reader receives a schedule of 200-2000 calls - half drawn uniformly, half placed relative to the recent "
                 "past (successor / predecessor / repetition of the last successful read, neighbours of the last failed read, repetition of the last call) - "
                 "of read_sample, sample_offset, sample_count, track accessors, "
                 "movie accessors and metadata; track ids valid, 0 and max+1; sample ids 0, 1..N, N+1.., 2^32-1; with repetition - and every result is "
                 "compared with the result of the same single call on a fresh reader (samples by all fields and a hash of the bytes, errors by variant "
                 "and message); (b) 400 000 (thorough 6 000 000) random muxing histories are muxed twice in one process and once more in a separate process "
                 "(different per-process hash seeds) and the outputs compared; (c) every subject is opened twice and ftyp / moov / moofs / emsgs and the "
                 "per-track trak / trafs / moof offsets compared for equality; (d) the same media segment (corpus segments and 40 000 / 600 000 generated "
                 "fragmented movies) is opened through parents with different histories - init reader, a segment reader, a segment reader of a segment "
                 "reader, a segment reader that has been read from, a reader of a file with header and fragments - and structures and full transcripts "
                 "must be equal; (e) fragmented movies with 2-3 tracks, every other one with a foreign track id in one tfhd (one in eight: a DIFFERENT foreign id in every tfhd, counted in `subjects_with_several_distinct_foreign_track_ids`), are opened eight times and all transcripts must be identical; one scheduled call in 25 meets a transient I/O error of the stream. distinct_nontrivial = distinct (previous call kind and outcome -> next call "
                 "kind and outcome) transitions observed in the schedules plus distinct muxing history shapes."),
        "assumptions": [
            "the fresh-reader answer is the reference (metamorphic); correctness of the answer itself is C03/C09's business",
        ],
    },
}
