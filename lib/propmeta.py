"""Per-property metadata used by ./check (levels, profiles, evidence wording)."""

TRUSTED = "independent reference codec / model in harness/src (refenc.rs, refdec.rs, model.rs), written from the ISO/IEC 14496 specifications"

PROPS = {
    "C16": {
        "level": "exploration",
        "profiles": ["rel"],
        "exhaustive": {"quick": False, "thorough": True},
        "min_evals": {"quick": 1 << 32, "thorough": 1 << 32},
        "rule": ("every point of every finite mapping domain is executed through the real conversion functions and "
                 "compared with tables re-typed from the specifications: all 2^32 codes for u32<->FourCC<->BoxType, "
                 "DataType, TrackType-from-FourCC and the 16.16 wrapper; all 2^16 packed language codes through the mdhd "
                 "codec and all 26^3 three-letter codes; all 2^16 (profile, compatibility) pairs; all u8 for AOT / "
                 "frequency index / channel configuration; all 2^16 raw 8.8 values; all strings of length <= 4 over a "
                 "40-symbol alphabet for the kind names. Textual FourCC form: all 2^32 codes in thorough, every 61st "
                 "code plus every table code and its 32 single-bit neighbours in quick (the one non-exhaustive stratum). "
                 "distinct_nontrivial counts domain points that lie in a defining table, are a single-bit neighbour of a "
                 "table code, or belong to one of the small (<= 2^16) domains, each counted once."),
        "assumptions": [
            "oracle tables (four-character codes from the MP4 registration authority list, ISO/IEC 14496-3 tables 1.17/1.18/1.19, ISO-639-2/T packing, H.264 Annex A constraint_set1_flag = bit 6) are typed independently in harness/src/props/c16.rs",
            "textual losslessness is only demanded of codes whose four bytes are valid UTF-8 (a &str cannot hold the others); DESIGN.md 8.3",
            "8.8 signed wrapper: value() of a negative non-integer may be floor or truncation",
        ],
    },
}
