//! Logical movie model, physical layout choices and file assembly through the reference
//! encoder, together with the expected answer of every reader call (trusted base).

use crate::prng::Rng;
use crate::refenc::*;

#[derive(Debug, Clone, Copy, PartialEq, Eq)]
pub enum Codec {
    Avc,
    Hevc,
    Vp9,
    Aac,
    Ttxt,
}

#[derive(Debug, Clone, PartialEq, Eq)]
pub struct MSample {
    pub size: u32,
    pub fill: u64,
    pub delta: u32,
    pub cts: i32,
    pub sync: bool,
}

pub fn msample_bytes(s: &MSample) -> Vec<u8> {
    let mut v = Vec::with_capacity(s.size as usize);
    for i in 0..s.size as u64 {
        v.push(crate::streams::fill_byte(s.fill, i));
    }
    v
}

#[derive(Debug, Clone, Copy, PartialEq, Eq)]
pub enum CttsMode {
    Absent,
    V0,
    V1,
}

#[derive(Debug, Clone)]
pub struct StblLayout {
    /// samples per chunk (composition of N)
    pub chunks: Vec<u32>,
    /// start a new stsc run at chunk i although the count equals the previous chunk's
    pub extra_breaks: Vec<bool>,
    pub co64: bool,
    pub fixed_stsz: bool,
    pub split_stts: bool,
    pub ctts: CttsMode,
    pub split_ctts: bool,
    pub stss_present: bool,
    pub split_seed: u64,
}

#[derive(Debug, Clone)]
pub struct MTrack {
    pub id: u32,
    pub codec: Codec,
    pub timescale: u32,
    pub lang: [u8; 3],
    pub width: u16,
    pub height: u16,
    pub samples: Vec<MSample>,
    pub layout: StblLayout,
    pub with_edts: bool,
    /// AAC parameters (object type, frequency index, channel configuration, bitrate)
    pub aac: (u8, u8, u8, u32),
    pub sps: Vec<u8>,
    pub pps: Vec<u8>,
}

/// data-type sentinel: the item is written as a bare box holding the payload (no `data` child)
pub const RAW_ITEM: u32 = 0xFFFF_FF00;

#[derive(Debug, Clone, Default)]
pub struct Tags {
    /// (item type, data type, payload) in file order; unknown item types allowed
    pub items: Vec<([u8; 4], u32, Vec<u8>)>,
    pub handler: [u8; 4],
    pub meta_fullbox: bool,
    pub hdlr_first: bool,
    /// where the meta box lives: 0 = moov/udta/meta, 1 = moov/meta (not under udta), 2 = udta without meta, 3 = no udta
    pub place: u8,
    /// extra unknown boxes inside udta before meta
    pub udta_extra: bool,
    /// per item (same order as `items`, missing = false): the item box uses the 64-bit size header
    pub large_items: Vec<bool>,
}

#[derive(Debug, Clone)]
pub struct Movie {
    pub major: [u8; 4],
    pub minor: u32,
    pub brands: Vec<[u8; 4]>,
    pub timescale: u32,
    pub tracks: Vec<MTrack>,
    pub tags: Option<Tags>,
}

#[derive(Debug, Clone)]
pub struct FileLayout {
    pub moov_first: bool,
    /// order in which chunks are laid out in mdat: (track index, chunk index)
    pub chunk_order: Vec<(usize, usize)>,
    /// padding bytes before each chunk (same length as chunk_order)
    pub gaps: Vec<u32>,
    pub mdat_large: bool,
    /// mdat written with size 0 (legal only when it is the last box)
    pub mdat_to_end: bool,
    pub free_between: bool,
}

#[derive(Debug, Clone, PartialEq, Eq)]
pub struct Expect {
    pub offset: u64,
    pub size: u32,
    pub fill: u64,
    pub start: u64,
    pub delta: u32,
    pub cts: i32,
    pub sync: bool,
}

pub struct Built {
    pub ser: Ser,
    /// per track (in `movie.tracks` order): expected per-sample answers
    pub expect: Vec<Vec<Expect>>,
}

// ---------------------------------------------------------------------------------------
// table encodings from the layout
// ---------------------------------------------------------------------------------------

fn runs<T: PartialEq + Copy>(xs: &[T]) -> Vec<(u32, T)> {
    let mut out: Vec<(u32, T)> = Vec::new();
    for x in xs {
        if let Some(l) = out.last_mut() {
            if l.1 == *x {
                l.0 += 1;
                continue;
            }
        }
        out.push((1, *x));
    }
    out
}

fn split_runs<T: Copy>(r: Vec<(u32, T)>, rng: &mut Rng) -> Vec<(u32, T)> {
    let mut out = Vec::new();
    for (c, v) in r {
        let mut left = c;
        while left > 0 {
            let take = if left > 1 && rng.bool() { 1 + rng.below(left as u64 - 1) as u32 } else { left };
            out.push((take, v));
            left -= take;
        }
    }
    // half of the split tables also carry EMPTY runs (count 0): redundant but consistent - the
    // counts still add up - placed in front, between and behind the real runs, each with the
    // value of some other run so that a reader that lets an empty run cover a sample shows
    if !out.is_empty() && rng.bool() {
        let k = 1 + rng.usize_below(3);
        for _ in 0..k {
            let v = out[rng.usize_below(out.len())].1;
            let pos = rng.usize_below(out.len() + 1);
            out.insert(pos, (0, v));
        }
    }
    out
}

pub fn stsc_entries(l: &StblLayout) -> Vec<(u32, u32, u32)> {
    let mut out: Vec<(u32, u32, u32)> = Vec::new();
    for (i, c) in l.chunks.iter().enumerate() {
        let brk = l.extra_breaks.get(i).copied().unwrap_or(false);
        match out.last() {
            Some(last) if last.1 == *c && !brk => {}
            _ => out.push((i as u32 + 1, *c, 1)),
        }
    }
    out
}

fn sample_entry(t: &MTrack) -> BoxT {
    let vis = VisualF { width: t.width, height: t.height, ..Default::default() };
    match t.codec {
        Codec::Avc => {
            let a = AvcCF {
                version: 1,
                profile: t.sps.get(1).copied().unwrap_or(100),
                compat: t.sps.get(2).copied().unwrap_or(0),
                level: t.sps.get(3).copied().unwrap_or(31),
                length_size_minus_one: 3,
                sps: vec![t.sps.clone()],
                pps: vec![t.pps.clone()],
            };
            enc_visual(b"avc1", &vis, vec![enc_avcc(&a)])
        }
        Codec::Hevc => {
            let h = HvcCF { version: 1, profile_idc: 1, level_idc: 93, chroma_format: 1, length_size_minus_one: 3, reserved_ones: true,
                arrays: vec![HvcCArrayF { completeness: true, nal_type: 32, nalus: vec![vec![0x40, 1, 2, 3]] }], ..Default::default() };
            enc_visual(b"hev1", &vis, vec![enc_hvcc(&h)])
        }
        Codec::Vp9 => {
            let v = VpcCF { version: 1, profile: 0, level: 31, bit_depth: 8, chroma_subsampling: 1, ..Default::default() };
            enc_visual(b"vp09", &vis, vec![enc_vpcc(&v)])
        }
        Codec::Aac => {
            let e = EsdsF { es_id: 1, object_type: 0x40, stream_type: 5, buffer_size: 0, max_bitrate: t.aac.3, avg_bitrate: t.aac.3,
                aot: t.aac.0, freq_index: t.aac.1, freq: 48000, chan: t.aac.2, ..Default::default() };
            // the sample entry's own channel count is informative; keep it plausible (2) when the
            // AudioSpecificConfig does not name a layout
            enc_mp4a(&AudioF { channelcount: if (1..=7).contains(&t.aac.2) { t.aac.2 as u16 } else { 2 }, ..Default::default() }, vec![enc_esds(&e)])
        }
        Codec::Ttxt => enc_tx3g(&Tx3gF::default()),
    }
}

pub fn track_duration(t: &MTrack) -> u64 {
    t.samples.iter().map(|s| s.delta as u64).sum()
}

fn build_stbl(t: &MTrack, chunk_offsets: &[u64]) -> BoxT {
    let l = &t.layout;
    let mut rng = Rng::new(l.split_seed);
    let mut stbl = BoxT::new(b"stbl");
    stbl.push(enc_stsd(0, 0, vec![sample_entry(t)]));
    let deltas: Vec<u32> = t.samples.iter().map(|s| s.delta).collect();
    let mut r = runs(&deltas);
    if l.split_stts {
        r = split_runs(r, &mut rng);
    }
    stbl.push(enc_stts(0, 0, &r));
    if l.ctts != CttsMode::Absent {
        let c: Vec<i32> = t.samples.iter().map(|s| s.cts).collect();
        let mut r = runs(&c);
        if l.split_ctts {
            r = split_runs(r, &mut rng);
        }
        stbl.push(enc_ctts(if l.ctts == CttsMode::V1 { 1 } else { 0 }, 0, &r));
    }
    if l.stss_present {
        let e: Vec<u32> = t.samples.iter().enumerate().filter(|(_, s)| s.sync).map(|(i, _)| i as u32 + 1).collect();
        stbl.push(enc_stss(0, 0, &e));
    }
    stbl.push(enc_stsc(0, 0, &stsc_entries(l)));
    if l.fixed_stsz {
        stbl.push(enc_stsz(0, 0, t.samples[0].size, t.samples.len() as u32, &[]));
    } else {
        let sizes: Vec<u32> = t.samples.iter().map(|s| s.size).collect();
        stbl.push(enc_stsz(0, 0, 0, sizes.len() as u32, &sizes));
    }
    if l.co64 {
        stbl.push(enc_co64(0, 0, chunk_offsets));
    } else {
        let o: Vec<u32> = chunk_offsets.iter().map(|x| *x as u32).collect();
        stbl.push(enc_stco(0, 0, &o));
    }
    stbl
}

fn handler_of(c: Codec) -> [u8; 4] {
    match c {
        Codec::Avc | Codec::Hevc | Codec::Vp9 => *b"vide",
        Codec::Aac => *b"soun",
        Codec::Ttxt => *b"sbtl",
    }
}

fn build_trak(m: &Movie, t: &MTrack, chunk_offsets: &[u64]) -> BoxT {
    let dur = track_duration(t);
    let tk_dur = (dur as u128 * m.timescale as u128 / t.timescale.max(1) as u128) as u64;
    let mut trak = BoxT::new(b"trak");
    // track matrix: mostly unity; otherwise one of the rotations / flips real files carry
    // (phones write 90 / 180 / 270 degrees), and one with an extreme entry
    const ONE: i32 = 0x0001_0000;
    const W: i32 = 0x4000_0000;
    let matrix: [i32; 9] = match (t.id as usize + t.samples.len()) % 11 {
        0 => [0, ONE, 0, -ONE, 0, 0, 0, 0, W],
        1 => [-ONE, 0, 0, 0, -ONE, 0, 0, 0, W],
        2 => [0, -ONE, 0, ONE, 0, 0, 0, 0, W],
        3 => [-ONE, 0, 0, 0, ONE, 0, 0, 0, W],
        4 => [0, i32::MIN, 0, ONE, 0, 0, 0, 0, W],
        5 => [0, ONE, 0, i32::MIN, 0, 0, 0, 0, W],
        _ => UNITY,
    };
    trak.push(enc_tkhd(&TkhdF {
        version: if tk_dur > u32::MAX as u64 { 1 } else { 0 },
        track_id: t.id,
        matrix,
        duration: tk_dur,
        width: (t.width as u32) << 16,
        height: (t.height as u32) << 16,
        ..Default::default()
    }));
    if t.with_edts {
        trak.push(BoxT::container(b"edts", vec![enc_elst(0, 0, &[ElstEntryF { segment_duration: tk_dur.min(u32::MAX as u64), media_time: 0, rate_int: 1, rate_frac: 0 }])]));
    }
    let mut mdia = BoxT::new(b"mdia");
    // media header duration: usually the sum of the deltas; some files carry a rounded, a
    // stale, a zero or an "unknown" (all ones) value - sample timing comes from the tables alone
    let mdhd_dur = if dur > u32::MAX as u64 {
        dur
    } else {
        match (t.id as usize * 3 + t.samples.len()) % 13 {
            0 => 0,
            1 => dur + 250,
            2 => dur.saturating_sub(dur / 3 + 1),
            3 => u32::MAX as u64,
            _ => dur,
        }
    };
    mdia.push(enc_mdhd(&MdhdF { version: if dur > u32::MAX as u64 { 1 } else { 0 }, timescale: t.timescale, duration: mdhd_dur, lang: t.lang, ..Default::default() }));
    // handler names: mostly an ordinary one; some tracks carry a name that looks like a
    // QuickTime counted string (first byte == number of bytes that follow), with an ASCII or a
    // two-byte first character - a conforming C string all the same
    let name: Vec<u8> = match (t.timescale as usize + t.samples.len()) % 9 {
        0 => {
            let mut v = "\u{c3}".as_bytes().to_vec(); // C3 83
            v.extend(std::iter::repeat(b'x').take(0xC3 - 1));
            v
        }
        1 => {
            let mut v = vec![b'0'];
            v.extend(std::iter::repeat(b'y').take(b'0' as usize));
            v
        }
        // the other convention: first byte == length of the whole name
        2 => {
            let mut v = vec![b'A'];
            v.extend(std::iter::repeat(b'z').take(b'A' as usize - 1));
            v
        }
        _ => b"VerifHandler".to_vec(),
    };
    mdia.push(enc_hdlr(&HdlrF { handler: handler_of(t.codec), name, ..Default::default() }));
    let mut minf = BoxT::new(b"minf");
    match t.codec {
        Codec::Avc | Codec::Hevc | Codec::Vp9 => {
            minf.push(enc_vmhd(0, 1, 0, [0, 0, 0]));
        }
        Codec::Aac => {
            minf.push(enc_smhd(0, 0, 0));
        }
        Codec::Ttxt => {}
    }
    minf.push(enc_dinf_default());
    minf.push(build_stbl(t, chunk_offsets));
    mdia.push(minf);
    trak.push(mdia);
    trak
}

pub fn build_tags(tags: &Tags) -> BoxT {
    let hdlr = enc_hdlr(&HdlrF { handler: tags.handler, name: Vec::new(), ..Default::default() });
    let mut ilst = BoxT::new(b"ilst");
    for (k, (typ, dt, payload)) in tags.items.iter().enumerate() {
        if *dt == RAW_ITEM {
            // an unrelated item with arbitrary content: the payload is the item's raw body
            // (no `data` child; an empty payload gives a header-only 8-byte item)
            ilst.push(free_box(typ, 0, 0));
            if let Some(Part::Data(pb)) = ilst.parts.last_mut().and_then(|p| if let Part::Child(c) = p { c.parts.first_mut() } else { None }) {
                pb.b = payload.clone();
            }
        } else {
            ilst.push(enc_item(typ, *dt, payload));
        }
        if tags.large_items.get(k).copied().unwrap_or(false) {
            if let Some(Part::Child(c)) = ilst.parts.last_mut() {
                c.large = true;
            }
        }
    }
    let children = if tags.hdlr_first { vec![hdlr, ilst] } else { vec![ilst, hdlr] };
    enc_meta(tags.meta_fullbox, children)
}

/// Everything that precedes / follows the sample data, as a tree. `offsets[t]` are the chunk
/// offsets of track t.
pub fn build_moov(m: &Movie, offsets: &[Vec<u64>], mvex: Option<Vec<TrexF>>) -> BoxT {
    let mut moov = BoxT::new(b"moov");
    let mut dur = 0u64;
    for t in &m.tracks {
        let d = (track_duration(t) as u128 * m.timescale as u128 / t.timescale.max(1) as u128) as u64;
        dur = dur.max(d);
    }
    moov.push(enc_mvhd(&MvhdF {
        version: if dur > u32::MAX as u64 { 1 } else { 0 },
        timescale: m.timescale,
        duration: dur,
        next_track_id: m.tracks.iter().map(|t| t.id).max().unwrap_or(0).wrapping_add(1),
        ..Default::default()
    }));
    for (i, t) in m.tracks.iter().enumerate() {
        moov.push(build_trak(m, t, &offsets[i]));
    }
    if let Some(trexs) = mvex {
        let mut mv = BoxT::new(b"mvex");
        for tr in &trexs {
            mv.push(enc_trex(tr));
        }
        moov.push(mv);
    }
    if let Some(tags) = &m.tags {
        match tags.place {
            0 => {
                let mut udta = BoxT::new(b"udta");
                if tags.udta_extra {
                    udta.push(free_box(b"Xtra", 9, 0x41));
                }
                udta.push(build_tags(tags));
                moov.push(udta);
            }
            1 => {
                moov.push(build_tags(tags));
            }
            2 => {
                let mut udta = BoxT::new(b"udta");
                udta.push(free_box(b"Xtra", 5, 0x42));
                moov.push(udta);
            }
            _ => {}
        }
    }
    moov
}

/// Assemble a non-fragmented file. `transform` may restructure the top-level tree (it must be
/// deterministic and must not change the relative layout inside mdat); it is applied before
/// offsets are resolved, so sample offsets follow the layout change exactly.
pub fn build_plain(m: &Movie, fl: &FileLayout, transform: &dyn Fn(&mut Vec<BoxT>)) -> Built {
    // mdat payload with relative chunk positions
    let mut payload: Vec<u8> = Vec::new();
    let mut rel: Vec<Vec<u64>> = m.tracks.iter().map(|t| vec![0u64; t.layout.chunks.len()]).collect();
    // first sample index of every chunk
    let firsts: Vec<Vec<usize>> = m
        .tracks
        .iter()
        .map(|t| {
            let mut v = Vec::new();
            let mut k = 0usize;
            for c in &t.layout.chunks {
                v.push(k);
                k += *c as usize;
            }
            v
        })
        .collect();
    for (i, (ti, ci)) in fl.chunk_order.iter().enumerate() {
        let gap = fl.gaps.get(i).copied().unwrap_or(0);
        payload.extend(std::iter::repeat(0xEEu8).take(gap as usize));
        rel[*ti][*ci] = payload.len() as u64;
        let t = &m.tracks[*ti];
        let first = firsts[*ti][*ci];
        for s in &t.samples[first..first + t.layout.chunks[*ci] as usize] {
            payload.extend_from_slice(&msample_bytes(s));
        }
    }
    let make = |base: u64| -> Vec<BoxT> {
        let offsets: Vec<Vec<u64>> = rel.iter().map(|v| v.iter().map(|r| base + r).collect()).collect();
        let ftyp = enc_ftyp(&FtypF { major: m.major, minor: m.minor, brands: m.brands.clone() });
        let moov = build_moov(m, &offsets, None);
        let mut mdat = BoxT::new(b"mdat");
        let mut pb = PB::new();
        pb.raw(&payload);
        mdat.data(pb);
        mdat.large = fl.mdat_large;
        let mut top = vec![ftyp];
        if fl.moov_first {
            top.push(moov);
            if fl.free_between {
                top.push(free_box(b"free", 11, 0));
            }
            mdat.to_end = fl.mdat_to_end && !fl.mdat_large;
            top.push(mdat);
        } else {
            top.push(mdat);
            if fl.free_between {
                top.push(free_box(b"free", 3, 0));
            }
            top.push(moov);
        }
        transform(&mut top);
        top
    };
    let pass0 = serialize(&make(0));
    let mdat_pos = pass0.boxes.iter().find(|b| &b.typ == b"mdat" && b.path.matches('/').count() == 0).expect("mdat");
    let base = (mdat_pos.start + mdat_pos.hdr) as u64;
    let ser = serialize(&make(base));
    let mut expect = Vec::new();
    for (ti, t) in m.tracks.iter().enumerate() {
        let mut v = Vec::new();
        let mut start = 0u64;
        let mut k = 0usize;
        for (ci, c) in t.layout.chunks.iter().enumerate() {
            let mut off = base + rel[ti][ci];
            for _ in 0..*c {
                let s = &t.samples[k];
                v.push(Expect {
                    offset: off,
                    size: s.size,
                    fill: s.fill,
                    start,
                    delta: s.delta,
                    cts: if t.layout.ctts == CttsMode::Absent { 0 } else { s.cts },
                    sync: if t.layout.stss_present { s.sync } else { true },
                });
                off += s.size as u64;
                start += s.delta as u64;
                k += 1;
            }
        }
        expect.push(v);
    }
    Built { ser, expect }
}

// ---------------------------------------------------------------------------------------
// generators for the non-fragmented model
// ---------------------------------------------------------------------------------------

pub fn gen_codec(rng: &mut Rng) -> Codec {
    *rng.pick(&[Codec::Avc, Codec::Hevc, Codec::Vp9, Codec::Aac, Codec::Ttxt])
}

/// All compositions of n (ordered partitions) as vectors of parts.
pub fn compositions(n: u32) -> Vec<Vec<u32>> {
    if n == 0 {
        return vec![vec![]];
    }
    let mut out = Vec::new();
    for mask in 0..(1u32 << (n - 1)) {
        let mut parts = Vec::new();
        let mut cur = 1;
        for i in 0..n - 1 {
            if mask & (1 << i) != 0 {
                parts.push(cur);
                cur = 1;
            } else {
                cur += 1;
            }
        }
        parts.push(cur);
        out.push(parts);
    }
    out
}

pub fn random_composition(rng: &mut Rng, n: u32, max_part: u32) -> Vec<u32> {
    let mut parts = Vec::new();
    let mut left = n;
    let mode = rng.below(4);
    let fixed = 1 + rng.below(max_part as u64) as u32;
    while left > 0 {
        let p = match mode {
            0 => fixed,                                   // long runs of equal chunks
            1 => 1 + rng.below(max_part as u64) as u32,   // all different
            2 => {
                if rng.chance(1, 5) {
                    1 + rng.below(max_part as u64) as u32
                } else {
                    fixed
                }
            }
            _ => 1,
        }
        .min(left);
        parts.push(p);
        left -= p;
    }
    parts
}

pub struct SampleGen {
    pub size_mode: u8,
    pub base_size: u32,
    pub delta_mode: u8,
    pub base_delta: u32,
    pub cts_mode: u8,
    pub sync_mode: u8,
}

impl SampleGen {
    pub fn new(rng: &mut Rng, max_size: u32) -> SampleGen {
        SampleGen {
            size_mode: rng.below(5) as u8,
            base_size: 1 + rng.below(max_size as u64) as u32,
            delta_mode: rng.below(5) as u8,
            base_delta: match rng.below(4) {
                0 => 1,
                1 => 1024,
                2 => rng.biased_u32(),
                _ => rng.below(100_000) as u32,
            },
            cts_mode: rng.below(4) as u8,
            sync_mode: rng.below(5) as u8,
        }
    }
    pub fn sample(&self, rng: &mut Rng, k: u32) -> MSample {
        let size = match self.size_mode {
            0 => self.base_size,
            1 => rng.below(self.base_size as u64 + 1) as u32,
            2 => {
                if rng.chance(1, 4) {
                    0
                } else {
                    self.base_size
                }
            }
            3 => 0,
            _ => 1 + rng.below(8) as u32,
        };
        let delta = match self.delta_mode {
            0 => self.base_delta,
            1 => {
                if rng.chance(1, 5) {
                    self.base_delta.wrapping_add(1)
                } else {
                    self.base_delta
                }
            }
            2 => rng.biased_u32(),
            3 => 0,
            _ => rng.below(5000) as u32,
        };
        let cts = match self.cts_mode {
            0 => 0,
            1 => *rng.pick(&[0i32, 0, 512, 1024]),
            2 => rng.biased_i32(),
            _ => ((k % 4) as i32 - 1) * 100,
        };
        let sync = match self.sync_mode {
            0 => true,
            1 => false,
            2 => k % 5 == 1,
            3 => rng.bool(),
            _ => k == 1,
        };
        MSample { size, fill: rng.next_u64(), delta, cts, sync }
    }
}

pub fn gen_layout(rng: &mut Rng, samples: &[MSample], chunks: Vec<u32>) -> StblLayout {
    let n = samples.len();
    let all_equal_nonzero = n > 0 && samples.iter().all(|s| s.size == samples[0].size) && samples[0].size > 0;
    let nonneg = samples.iter().all(|s| s.cts >= 0);
    let any_cts = samples.iter().any(|s| s.cts != 0);
    let all_sync = samples.iter().all(|s| s.sync);
    let extra_breaks = (0..chunks.len()).map(|_| rng.chance(1, 5)).collect();
    StblLayout {
        chunks,
        extra_breaks,
        co64: rng.chance(1, 3),
        fixed_stsz: all_equal_nonzero && rng.bool(),
        split_stts: rng.chance(1, 3),
        ctts: if any_cts || rng.chance(1, 3) {
            if nonneg && rng.bool() {
                CttsMode::V0
            } else {
                CttsMode::V1
            }
        } else {
            CttsMode::Absent
        },
        split_ctts: rng.chance(1, 3),
        stss_present: !all_sync || rng.bool(),
        split_seed: rng.next_u64(),
    }
}

pub fn gen_track(rng: &mut Rng, id: u32, n: u32, max_size: u32, max_chunk: u32) -> MTrack {
    let g = SampleGen::new(rng, max_size);
    let samples: Vec<MSample> = (1..=n).map(|k| g.sample(rng, k)).collect();
    let chunks = random_composition(rng, n, max_chunk);
    let layout = gen_layout(rng, &samples, chunks);
    let codec = gen_codec(rng);
    let aots: Vec<u8> = (1u8..=30).filter(|v| matches!(v, 1..=9 | 12..=17 | 19..=30)).collect();
    MTrack {
        id,
        codec,
        timescale: crate::muxdrive::gen_timescale(rng),
        lang: {
            let l = crate::muxdrive::gen_language(rng);
            let b = l.as_bytes();
            [b[0], b[1], b[2]]
        },
        width: rng.biased_u16(),
        height: rng.biased_u16(),
        samples,
        layout,
        with_edts: rng.chance(1, 4),
        aac: (*rng.pick(&aots), rng.below(13) as u8, 1 + rng.below(7) as u8, rng.biased_u32()),
        sps: {
            let l = 4 + rng.usize_below(20);
            crate::muxdrive::gen_sps(rng, l)
        },
        pps: {
            let l = 4 + rng.usize_below(8);
            rng.bytes(l)
        },
    }
}

pub fn gen_file_layout(rng: &mut Rng, m: &Movie) -> FileLayout {
    let mut order: Vec<(usize, usize)> = Vec::new();
    let mode = rng.below(3);
    match mode {
        0 => {
            // track after track
            for (ti, t) in m.tracks.iter().enumerate() {
                for ci in 0..t.layout.chunks.len() {
                    order.push((ti, ci));
                }
            }
        }
        1 => {
            // interleaved round robin
            let maxc = m.tracks.iter().map(|t| t.layout.chunks.len()).max().unwrap_or(0);
            for ci in 0..maxc {
                for (ti, t) in m.tracks.iter().enumerate() {
                    if ci < t.layout.chunks.len() {
                        order.push((ti, ci));
                    }
                }
            }
        }
        _ => {
            for (ti, t) in m.tracks.iter().enumerate() {
                for ci in 0..t.layout.chunks.len() {
                    order.push((ti, ci));
                }
            }
            rng.shuffle(&mut order);
        }
    }
    let gaps = (0..order.len()).map(|_| if rng.chance(1, 4) { rng.below(20) as u32 } else { 0 }).collect();
    let moov_first = rng.bool();
    let mdat_large = rng.chance(1, 5);
    FileLayout {
        moov_first,
        chunk_order: order,
        gaps,
        mdat_large,
        mdat_to_end: moov_first && !mdat_large && rng.chance(1, 6),
        free_between: rng.chance(1, 4),
    }
}

pub fn gen_movie(rng: &mut Rng, max_tracks: u32, max_samples: u32, max_size: u32) -> Movie {
    let nt = 1 + rng.below(max_tracks as u64) as u32;
    let mut ids: Vec<u32> = (1..=nt).collect();
    if rng.chance(1, 4) {
        // non-contiguous / unordered ids
        for id in ids.iter_mut() {
            *id = 1 + rng.below(1000) as u32 + *id * 1000;
        }
        rng.shuffle(&mut ids);
    }
    let tracks = ids
        .iter()
        .map(|id| {
            let n = match rng.below(6) {
                0 => 0,
                1 => 1,
                _ => rng.below(max_samples as u64 + 1) as u32,
            };
            let mc = 1 + rng.below(12) as u32;
            gen_track(rng, *id, n, max_size, mc)
        })
        .collect();
    Movie {
        major: crate::muxdrive::gen_brand(rng),
        minor: rng.biased_u32(),
        brands: (0..rng.below(5)).map(|_| crate::muxdrive::gen_brand(rng)).collect(),
        timescale: crate::muxdrive::gen_timescale(rng),
        tracks,
        tags: None,
    }
}

// ---------------------------------------------------------------------------------------
// fragmented model (C09)
// ---------------------------------------------------------------------------------------

#[derive(Debug, Clone, Copy, PartialEq, Eq)]
pub enum BaseMode {
    /// tfhd carries base_data_offset
    Explicit,
    /// tfhd flag default-base-is-moof
    DefaultBaseIsMoof,
    /// neither: the base is the start of the enclosing movie fragment as well
    Neither,
}

#[derive(Debug, Clone)]
pub struct Run {
    pub track: usize,
    pub samples: Vec<MSample>,
    pub base: BaseMode,
    pub tfhd_duration: Option<u32>,
    pub per_sample_durations: bool,
    pub cts_present: bool,
    pub tfdt_v1: bool,
    pub base_decode_time: u64,
    /// None: no data_offset field. Some(extra): field present; data placed so that the field
    /// is positive (extra >= 0: that many padding bytes skipped) or negative (explicit base
    /// after the data)
    pub data_offset: Option<i32>,
    pub negative_offset: bool,
    pub tfhd_default_size: bool,
    pub trun_sample_flags: bool,
    pub first_sample_flags: bool,
    /// with an explicit base data offset, ALSO set the default-base-is-moof flag (the explicit
    /// base still wins: ISO/IEC 14496-12 8.8.7, and the statement's "explicit base, else ...")
    pub also_default_base_flag: bool,
    /// the track fragment carries no run at all (tfhd with duration-is-empty + tfdt only, as
    /// live packagers write for sparse tracks); `samples` must be empty
    pub no_trun: bool,
}

#[derive(Debug, Clone)]
pub struct Fragment {
    pub runs: Vec<Run>,
    pub moof_large: bool,
}

#[derive(Debug, Clone)]
pub struct FragMovie {
    pub movie: Movie,
    /// trex defaults per track: (duration, size, flags)
    pub trex: Vec<(u32, u32, u32)>,
    pub fragments: Vec<Fragment>,
    pub styp: bool,
    pub with_mehd: bool,
}

pub struct BuiltFrag {
    /// single-stream file (init + fragments)
    pub whole: Ser,
    /// initialisation segment alone
    pub init: Vec<u8>,
    /// media segment alone (offsets relative to its own start)
    pub segment: Vec<u8>,
    /// expected answers per track for the single stream, and for the separate media segment
    pub expect_whole: Vec<Vec<Expect>>,
    pub expect_segment: Vec<Vec<Expect>>,
}

fn run_duration(fm: &FragMovie, r: &Run, i: usize) -> u32 {
    if r.per_sample_durations {
        r.samples[i].delta
    } else if let Some(d) = r.tfhd_duration {
        d
    } else {
        fm.trex[r.track].0
    }
}

/// Serialise the fragments placed at absolute position `origin`; returns bytes and the
/// per-track expectations (offsets absolute, i.e. including `origin`).
fn build_fragments(fm: &FragMovie, origin: u64, xf: &dyn Fn(&mut BoxT)) -> (Vec<u8>, Vec<Vec<Expect>>, Vec<BoxT>) {
    let mut out: Vec<u8> = Vec::new();
    // the same top-level boxes as trees (for the field map of the single-stream file)
    let mut trees: Vec<BoxT> = Vec::new();
    let mut expect: Vec<Vec<Expect>> = fm.movie.tracks.iter().map(|_| Vec::new()).collect();
    if fm.styp {
        let s = serialize_one(&enc_ftyp(&FtypF { major: *b"msdh", minor: 0, brands: vec![*b"msdh", *b"msix"] }));
        let mut s2 = s.clone();
        s2[4..8].copy_from_slice(b"styp");
        out.extend_from_slice(&s2);
        let mut styp = enc_ftyp(&FtypF { major: *b"msdh", minor: 0, brands: vec![*b"msdh", *b"msix"] });
        styp.typ = *b"styp";
        trees.push(styp);
    }
    for (fi, frag) in fm.fragments.iter().enumerate() {
        let moof_start = origin + out.len() as u64;
        // data area layout: for every run, [padding][samples]
        let pads: Vec<u32> = frag.runs.iter().map(|r| r.data_offset.unwrap_or(0).max(0) as u32).collect();
        let run_len: Vec<u64> = frag.runs.iter().map(|r| r.samples.iter().map(|s| s.size as u64).sum()).collect();
        // two passes: moof size does not depend on the offset values
        let make = |data_starts: &[u64], mdat_end: u64| -> BoxT {
            let mut moof = BoxT::new(b"moof");
            moof.large = frag.moof_large;
            moof.push(enc_mfhd(0, 0, fi as u32 + 1));
            for (ri, r) in frag.runs.iter().enumerate() {
                let t = &fm.movie.tracks[r.track];
                let mut tf = TfhdF { track_id: t.id, ..Default::default() };
                let base: u64;
                match r.base {
                    BaseMode::Explicit => {
                        // explicit base: the data start itself (data_offset absent / positive pad
                        // counted from base) or the end of mdat (negative offsets)
                        base = if r.negative_offset { mdat_end } else { data_starts[ri] - pads[ri] as u64 };
                        tf.base_data_offset = Some(base);
                        if r.also_default_base_flag {
                            tf.extra_flags |= 0x020000;
                        }
                    }
                    BaseMode::DefaultBaseIsMoof => {
                        tf.extra_flags |= 0x020000;
                        base = moof_start;
                    }
                    BaseMode::Neither => {
                        base = moof_start;
                    }
                }
                tf.default_duration = r.tfhd_duration;
                if r.tfhd_default_size {
                    tf.default_size = Some(7);
                }
                if r.no_trun && r.samples.is_empty() {
                    tf.extra_flags |= 0x010000; // duration-is-empty
                }
                let mut traf = BoxT::new(b"traf");
                traf.push(enc_tfhd(&tf));
                traf.push(enc_tfdt(if r.tfdt_v1 { 1 } else { 0 }, 0, r.base_decode_time));
                let off = data_starts[ri] as i64 - base as i64;
                let tr = TrunF {
                    version: if r.samples.iter().any(|s| s.cts < 0) { 1 } else { 0 },
                    count: r.samples.len() as u32,
                    data_offset: if r.data_offset.is_some() || r.base != BaseMode::Explicit || r.negative_offset { Some(off as i32) } else { None },
                    first_sample_flags: if r.first_sample_flags { Some(0x0200_0000) } else { None },
                    durations: if r.per_sample_durations { Some(r.samples.iter().map(|s| s.delta).collect()) } else { None },
                    sizes: Some(r.samples.iter().map(|s| s.size).collect()),
                    sflags: if r.trun_sample_flags { Some(r.samples.iter().map(|s| if s.sync { 0x0200_0000 } else { 0x0101_0000 }).collect()) } else { None },
                    cts: if r.cts_present { Some(r.samples.iter().map(|s| s.cts as u32).collect()) } else { None },
                    ..Default::default()
                };
                if !(r.no_trun && r.samples.is_empty()) {
                    traf.push(enc_trun(&tr));
                    // hostile-corpus only (C06-C08): a second run in the same track fragment whose
                    // optional columns are the complement of the first one's (sizes kept). The
                    // format allows several runs per track fragment; whatever the reader makes of
                    // them, columns of different runs must not be indexed with each other's counts.
                    if multi_trun_allowed() && !r.samples.is_empty() && (fi + ri) % 2 == 0 {
                        let second = TrunF {
                            durations: if tr.durations.is_some() { None } else { Some(r.samples.iter().map(|s| s.delta).collect()) },
                            cts: if tr.cts.is_some() { None } else { Some(r.samples.iter().map(|s| s.cts as u32).collect()) },
                            sflags: if tr.sflags.is_some() { None } else { Some(r.samples.iter().map(|_| 0x0101_0000).collect()) },
                            ..tr.clone()
                        };
                        traf.push(enc_trun(&second));
                    }
                }
                moof.push(traf);
            }
            xf(&mut moof);
            moof
        };
        let zero: Vec<u64> = frag.runs.iter().enumerate().map(|(i, _)| pads[i] as u64).collect();
        let moof_size = make(&zero, 0).size();
        let mdat_large = { let mut probe = BoxT::new(b"mdat"); xf(&mut probe); probe.large };
        let mdat_payload_start = moof_start + moof_size + if mdat_large { 16 } else { 8 };
        let mut data_starts = Vec::new();
        let mut pos = mdat_payload_start;
        for (ri, _) in frag.runs.iter().enumerate() {
            pos += pads[ri] as u64;
            data_starts.push(pos);
            pos += run_len[ri];
        }
        let mdat_end = pos;
        let moof = make(&data_starts, mdat_end);
        assert_eq!(moof.size(), moof_size);
        out.extend_from_slice(&serialize_one(&moof));
        trees.push(moof);
        let mut mdat = BoxT::new(b"mdat");
        let mut pb = PB::new();
        for (ri, r) in frag.runs.iter().enumerate() {
            pb.raw(&vec![0xDD; pads[ri] as usize]);
            for s in &r.samples {
                pb.raw(&msample_bytes(s));
            }
        }
        mdat.data(pb);
        mdat.large = mdat_large;
        out.extend_from_slice(&serialize_one(&mdat));
        trees.push(mdat);
        // expectations
        for (ri, r) in frag.runs.iter().enumerate() {
            let mut off = data_starts[ri];
            let mut t = r.base_decode_time;
            for (i, s) in r.samples.iter().enumerate() {
                let d = run_duration(fm, r, i);
                expect[r.track].push(Expect {
                    offset: off,
                    size: s.size,
                    fill: s.fill,
                    start: t,
                    delta: d,
                    cts: if r.cts_present { s.cts } else { 0 },
                    sync: s.sync,
                });
                off += s.size as u64;
                t += d as u64;
            }
        }
    }
    (out, expect, trees)
}

thread_local! {
    static HYBRID: std::cell::Cell<bool> = std::cell::Cell::new(false);
}

thread_local! {
    static MULTI_TRUN: std::cell::Cell<bool> = std::cell::Cell::new(false);
}

/// Several runs per track fragment: built only for the hostile corpus (the expectations of
/// `build_fragments` describe single-run track fragments).
pub fn allow_multi_trun(on: bool) {
    MULTI_TRUN.with(|h| h.set(on));
}

fn multi_trun_allowed() -> bool {
    MULTI_TRUN.with(|h| h.get())
}

/// Hybrid movies (a movie box with samples of its own AND fragments) are built only on request
/// (C09): how such a file's samples are numbered once a prefix has lost the fragments is not
/// something the other properties' statements settle.
pub fn allow_hybrid(on: bool) {
    HYBRID.with(|h| h.set(on));
}

fn hybrid_allowed() -> bool {
    HYBRID.with(|h| h.get())
}

pub fn build_fragmented(fm: &FragMovie) -> BuiltFrag {
    build_fragmented_x(fm, &|_| {}, &|_| {})
}

/// `init_xf` transforms the top-level tree of the initialisation segment, `moof_xf` every
/// movie fragment box (it is also shown an empty `mdat` probe to decide the mdat header form).
pub fn build_fragmented_x(fm: &FragMovie, init_xf: &dyn Fn(&mut Vec<BoxT>), moof_xf: &dyn Fn(&mut BoxT)) -> BuiltFrag {
    // init segment: ftyp + moov (empty sample tables) with mvex
    let mut init_movie = fm.movie.clone();
    // one movie in nine (both optional-box flags set) is a "hybrid": its movie box is not empty,
    // the sample tables of every track list two samples of their own in one chunk (what muxers
    // write without the empty-moov option). For a track that has track fragments the samples
    // are those of its runs - "the sample count is the sum of the run counts" - so nothing in
    // the expectations changes.
    let hybrid = fm.styp && fm.with_mehd && hybrid_allowed();
    // (only tracks that have at least one track fragment: a track without any is read through
    // its sample tables, and its own samples would then be its samples)
    let has_traf: Vec<bool> = (0..init_movie.tracks.len()).map(|ti| fm.fragments.iter().any(|f| f.runs.iter().any(|r| r.track == ti))).collect();
    for (ti, t) in init_movie.tracks.iter_mut().enumerate() {
        t.samples.clear();
        t.layout.chunks.clear();
        t.layout.extra_breaks.clear();
        t.layout.fixed_stsz = false;
        t.layout.ctts = CttsMode::Absent;
        t.layout.stss_present = false;
        if hybrid && has_traf[ti] {
            t.samples = vec![MSample { size: 3, fill: 1, delta: 10, cts: 0, sync: true }, MSample { size: 5, fill: 2, delta: 10, cts: 0, sync: true }];
            t.layout.chunks = vec![2];
            t.layout.extra_breaks = vec![false];
        }
    }
    let offsets: Vec<Vec<u64>> = init_movie.tracks.iter().enumerate().map(|(ti, _)| if hybrid && has_traf[ti] { vec![0u64] } else { Vec::new() }).collect();
    let trexs: Vec<TrexF> = fm
        .movie
        .tracks
        .iter()
        .enumerate()
        .map(|(i, t)| TrexF { track_id: t.id, desc_index: 1, duration: fm.trex[i].0, size: fm.trex[i].1, sflags: fm.trex[i].2, ..Default::default() })
        .collect();
    let mut moov = build_moov(&init_movie, &offsets, Some(trexs));
    if fm.with_mehd {
        if let Some(mvex) = moov.find_mut(&[b"mvex"]) {
            mvex.parts.insert(0, Part::Child(enc_mehd(0, 0, 12345)));
        }
    }
    let ftyp = enc_ftyp(&FtypF { major: fm.movie.major, minor: fm.movie.minor, brands: fm.movie.brands.clone() });
    let mut init_top = vec![ftyp, moov];
    init_xf(&mut init_top);
    let init_ser = serialize(&init_top);
    let init = init_ser.bytes.clone();
    let (frag_whole, expect_whole, frag_trees) = build_fragments(fm, init.len() as u64, moof_xf);
    let (segment, expect_segment, _) = build_fragments(fm, 0, moof_xf);
    // the single stream is serialised once more as one forest, so that its field and box maps
    // cover the movie fragments too (they used to describe the initialisation part only, and
    // every field-directed mutation of a single-stream fragmented file missed the fragments)
    let mut all = init_top.clone();
    all.extend(frag_trees);
    let whole = serialize(&all);
    assert!(whole.bytes.len() == init.len() + frag_whole.len() && whole.bytes[init.len()..] == frag_whole[..] && whole.bytes[..init.len()] == init[..], "single-stream forest differs from init + fragments");
    BuiltFrag { whole, init, segment, expect_whole, expect_segment }
}

pub fn gen_frag_movie(rng: &mut Rng, max_frags: u32, max_tracks: u32, max_run: u32, same_trex: bool) -> FragMovie {
    let nt = 1 + rng.below(max_tracks as u64) as usize;
    let mut movie = gen_movie(rng, 1, 0, 8);
    movie.tracks.clear();
    for i in 0..nt {
        let mut t = gen_track(rng, i as u32 + 1, 0, 8, 1);
        if rng.chance(1, 5) {
            t.id = 10 + i as u32 * 7;
        }
        movie.tracks.push(t);
    }
    // one default duration in six is 0 ("nothing declared anywhere" when the run and the tfhd
    // are silent too: the sample durations are then 0, whatever the next fragment's decode time)
    let dur0 = |d: u64| if d % 6 == 0 { 0u32 } else { d as u32 };
    let common = (dur0(rng.below(5000)), 0u32, 0u32);
    let trex: Vec<(u32, u32, u32)> = (0..nt).map(|_| if same_trex { common } else { (dur0(rng.below(5000)), rng.below(100) as u32, 0) }).collect();
    let nf = 1 + rng.below(max_frags as u64) as usize;
    let mut next_time: Vec<u64> = vec![0; nt];
    let mut fragments = Vec::new();
    for _ in 0..nf {
        let nruns = 1 + rng.below(3) as usize;
        let mut runs = Vec::new();
        for _ in 0..nruns {
            let track = rng.usize_below(nt);
            let n = match rng.below(5) {
                0 => 0,
                1 => 1,
                _ => rng.below(max_run as u64 + 1) as u32,
            };
            let g = SampleGen::new(rng, 24);
            let mut samples: Vec<MSample> = (1..=n).map(|k| g.sample(rng, k)).collect();
            let cts_present = rng.bool();
            if !cts_present {
                for s in samples.iter_mut() {
                    s.cts = 0;
                }
            }
            let base = *rng.pick(&[BaseMode::Explicit, BaseMode::DefaultBaseIsMoof, BaseMode::Neither]);
            let per = rng.bool();
            let tfhd_duration = if rng.bool() { Some(rng.below(4000) as u32) } else { None };
            let tfdt_v1 = rng.bool();
            let bdt = match rng.below(5) {
                0 => next_time[track],
                1 => rng.below(1 << 20),
                2 => {
                    if tfdt_v1 {
                        (1u64 << 32) + rng.below(1 << 30)
                    } else {
                        u32::MAX as u64 - rng.below(1000)
                    }
                }
                3 => 0,
                _ => next_time[track] + rng.below(100),
            };
            let negative = base == BaseMode::Explicit && rng.chance(1, 3);
            let r = Run {
                track,
                samples,
                base,
                tfhd_duration,
                per_sample_durations: per,
                cts_present,
                tfdt_v1,
                base_decode_time: if tfdt_v1 { bdt } else { bdt.min(u32::MAX as u64) },
                data_offset: if rng.bool() { Some(rng.below(12) as i32) } else { None },
                negative_offset: negative,
                tfhd_default_size: rng.chance(1, 4),
                trun_sample_flags: rng.chance(1, 3),
                first_sample_flags: rng.chance(1, 4),
                also_default_base_flag: rng.chance(1, 3),
                no_trun: n == 0 && rng.chance(1, 3),
            };
            next_time[track] = r.base_decode_time + 1000;
            runs.push(r);
        }
        fragments.push(Fragment { runs, moof_large: rng.chance(1, 6) });
    }
    FragMovie { movie, trex, fragments, styp: rng.chance(1, 3), with_mehd: rng.chance(1, 3) }
}
