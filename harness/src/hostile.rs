//! Hostile-input machinery shared by C06 / C07 / C08 (and the seed corpus of C10, C11, C15):
//! seed corpus, structure-aware mutators, amplifier families, and the reader sweep that
//! calls every public read-side accessor under the monitors.

use crate::alloc;
use crate::cpu;
use crate::model::*;
use crate::muxdrive;
use crate::panicmon::{self, PanicInfo};
use crate::prng::Rng;
use crate::refdec;
use crate::refenc::{self, BoxT, Field, Kind, Part, PB};
use crate::streams::{Ctl, MonReader};
use mp4::*;
use std::rc::Rc;

#[derive(Clone)]
pub struct Seed {
    pub name: String,
    pub bytes: Vec<u8>,
    pub fields: Vec<Field>,
    /// (start, size) of every box, innermost lookups
    pub boxes: Vec<(usize, u64)>,
    /// for media segments: the initialisation segment to open them against
    pub init: Option<Vec<u8>>,
}

fn fields_from_tree(bytes: &Vec<u8>) -> (Vec<Field>, Vec<(usize, u64)>) {
    let mut fields = Vec::new();
    let mut boxes = Vec::new();
    fn rec(bytes: &Vec<u8>, n: &refdec::Node, path: &str, fields: &mut Vec<Field>, boxes: &mut Vec<(usize, u64)>) {
        let p = format!("{}/{}", path, n.name());
        let s = n.start as usize;
        boxes.push((s, n.size));
        fields.push(Field { path: format!("{}.size", p), off: s, width: 4, kind: Kind::BoxSize });
        fields.push(Field { path: format!("{}.type", p), off: s + 4, width: 4, kind: Kind::FourCC });
        if n.hdr == 16 {
            fields.push(Field { path: format!("{}.largesize", p), off: s + 8, width: 8, kind: Kind::LargeSize });
        }
        if n.children.is_empty() {
            if &n.typ == b"mdat" {
                return;
            }
            let ps = n.payload_start() as usize;
            let pe = (n.end() as usize).min(bytes.len());
            let lim = (ps + 256).min(pe);
            // generic fields: version/flags, then u32 words; counts live at payload+4 for tables
            let full = matches!(&n.typ, b"mvhd" | b"tkhd" | b"mdhd" | b"hdlr" | b"vmhd" | b"smhd" | b"dref" | b"url " | b"stsd" | b"stts" | b"ctts" | b"stss" | b"stsc" | b"stsz" | b"stco" | b"co64" | b"elst" | b"mehd" | b"trex" | b"mfhd" | b"tfhd" | b"tfdt" | b"trun" | b"emsg" | b"esds" | b"vpcC" | b"meta");
            let mut o = ps;
            if full && ps + 4 <= pe {
                fields.push(Field { path: format!("{}.version", p), off: ps, width: 1, kind: Kind::Version });
                fields.push(Field { path: format!("{}.flags", p), off: ps + 1, width: 3, kind: Kind::Flags });
                o += 4;
            }
            let mut k = 0;
            while o + 4 <= lim {
                let kind = if full && k == 0 && matches!(&n.typ, b"stts" | b"ctts" | b"stss" | b"stsc" | b"stco" | b"co64" | b"elst" | b"dref" | b"stsd" | b"trun") { Kind::Count } else if &n.typ == b"stsz" && k == 1 { Kind::Count } else { Kind::Value };
                fields.push(Field { path: format!("{}.w{}", p, k), off: o, width: 4, kind });
                o += 4;
                k += 1;
            }
            // byte-granular fields for bit-packed boxes
            if matches!(&n.typ, b"avcC" | b"hvcC" | b"esds") {
                for (i, off) in (ps..lim).enumerate() {
                    fields.push(Field { path: format!("{}.b{}", p, i), off, width: 1, kind: Kind::Length });
                    if off + 2 <= lim {
                        fields.push(Field { path: format!("{}.h{}", p, i), off, width: 2, kind: Kind::Length });
                    }
                }
            }
        }
        for c in &n.children {
            rec(bytes, c, &p, fields, boxes);
        }
    }
    if let Ok(top) = refdec::parse_file(bytes) {
        for n in &top {
            rec(bytes, n, "", &mut fields, &mut boxes);
        }
    }
    (fields, boxes)
}

pub fn seed_from_bytes(name: &str, bytes: Vec<u8>, init: Option<Vec<u8>>) -> Seed {
    let (fields, boxes) = fields_from_tree(&bytes);
    Seed { name: name.to_string(), bytes, fields, boxes, init }
}

pub fn seed_from_ser(name: &str, ser: refenc::Ser, init: Option<Vec<u8>>) -> Seed {
    let boxes = ser.boxes.iter().map(|b| (b.start, b.size)).collect();
    // sample-entry internals (avcC/hvcC/esds bytes) are also covered generically
    let (mut extra, _) = fields_from_tree(&ser.bytes);
    extra.retain(|f| f.path.contains(".b") || f.path.contains(".h"));
    let mut fields = ser.fields;
    fields.extend(extra);
    Seed { name: name.to_string(), bytes: ser.bytes, fields, boxes, init }
}

fn emsg_box(rng: &mut Rng, version: u8) -> BoxT {
    refenc::enc_emsg(&refenc::EmsgF {
        version,
        flags: 0,
        timescale: 1000,
        presentation_time: rng.biased(64),
        presentation_time_delta: rng.biased_u32(),
        event_duration: 10,
        id: rng.next_u32(),
        scheme: b"urn:verif:scheme".to_vec(),
        value: b"v1".to_vec(),
        data: rng.bytes(9),
    })
}

/// The deterministic seed corpus (valid files in every layout / codec / feature).
pub fn corpus(seed: u64, big: bool) -> Vec<Seed> {
    let mut v = Vec::new();
    for f in ["minimal.mp4", "minimal_init.mp4", "minimal_fragment.m4s", "extended_audio_object_type.mp4", "big_buck_bunny_metadata.m4v"] {
        let p = format!("/repo/tests/samples/{}", f);
        if let Ok(b) = std::fs::read(&p) {
            if f == "big_buck_bunny_metadata.m4v" && !big {
                // keep only the header part (moov etc.); the 135 kB poster makes every case slow
                continue;
            }
            let init = if f == "minimal_fragment.m4s" { std::fs::read("/repo/tests/samples/minimal_init.mp4").ok() } else { None };
            v.push(seed_from_bytes(f, b, init));
        }
    }
    let mut rng = Rng::new(seed ^ 0xC0_4B05);
    let codecs = [Codec::Avc, Codec::Hevc, Codec::Vp9, Codec::Aac, Codec::Ttxt];
    // plain movies: every codec, with/without tags, edts, 64-bit mdat, moov first/last
    for i in 0..20usize {
        let mut m = gen_movie(&mut rng, 1 + (i % 3) as u32, 12, 24);
        m.tracks[0].codec = codecs[i % 5];
        m.tracks[0].with_edts = i % 2 == 0;
        if i % 3 == 0 {
            let mut t = crate::props::c18::gen_tags(&mut rng, i % 6 != 3);
            t.meta_fullbox = true;
            // keep tags small
            for it in t.items.iter_mut() {
                it.2.truncate(40);
            }
            // text items are opaque payloads to the mutators: the ones with a mdir handler get a
            // year text with multi-byte characters around byte 4 and a title that starts with a
            // byte order mark (what slicing or trimming accessors stumble over)
            if i % 6 != 3 {
                t.items.retain(|it| &it.0 != b"\xa9day");
                let year: &str = ["\u{4ee4}\u{548c}2\u{5e74}5\u{6708}", "20\u{e9}8-05", "\u{ff12}\u{ff10}\u{ff10}\u{ff18}", "2\u{e9}08"][(i / 6) % 4];
                t.items.push((*b"\xa9day", 1, year.as_bytes().to_vec()));
                t.items.push((*b"\xa9nam", 1, "\u{feff}Title \u{65e5}".as_bytes().to_vec()));
                t.large_items = Vec::new();
            }
            m.tags = Some(t);
        }
        let fl = gen_file_layout(&mut rng, &m);
        let em = i % 4 == 1;
        let eb = emsg_box(&mut rng, (i % 2) as u8);
        let b = build_plain(&m, &fl, &|top| {
            if em {
                top.push(eb.clone());
            }
        });
        v.push(seed_from_ser(&format!("plain{}", i), b.ser, None));
    }
    // fragmented: single stream, and init + segment pairs
    for i in 0..12usize {
        let mut fm = gen_frag_movie(&mut rng, 3, 2, 6, i % 3 != 0);
        fm.movie.tracks[0].codec = codecs[i % 5];
        // every third fragmented subject carries 64-bit mdat headers (a largesize field for the
        // mutators on the fragment path)
        let large_mdat = i % 3 == 1;
        // every fourth one has track fragments with two runs whose optional columns differ
        crate::model::allow_multi_trun(i % 4 == 3);
        let b = build_fragmented_x(&fm, &|_| {}, &|bx| {
            if large_mdat && &bx.typ == b"mdat" {
                bx.large = true;
            }
        });
        crate::model::allow_multi_trun(false);
        let init = b.init.clone();
        v.push(seed_from_ser(&format!("frag{}", i), b.whole, None));
        if i % 2 == 0 || large_mdat {
            v.push(seed_from_bytes(&format!("segment{}", i), b.segment, Some(init)));
        }
    }
    // muxer outputs
    for i in 0..8usize {
        let h = muxdrive::gen_history(&mut rng, 3, 10, 40, true);
        let w = crate::streams::MonWriter::plain();
        let run = muxdrive::run_history(&h, w, |_, _, _, _| {});
        if let Some(w) = run.writer {
            if run.ended_ok {
                v.push(seed_from_bytes(&format!("mux{}", i), w.buf, None));
            }
        }
    }
    v
}

/// boundary values for a field of `width` bytes in context
pub fn boundary_values(width: usize, n: u64, remaining: u64, box_size: u64, entry: u64) -> Vec<u64> {
    let w = (width * 8) as u32;
    let max = if w >= 64 { u64::MAX } else { (1u64 << w) - 1 };
    let mut v: Vec<u64> = vec![0, 1, 2, 3, 4, 7, 8, 9, 12, 15, 16, 17, 31, 32, 0x7F, 0x80, 0xFF, 0x100, 0x7FFF, 0x8000, 0xFFFF, 0x10000, 0x7FFF_FFFF, 0x8000_0000, 0xFFFF_FFFE, 0xFFFF_FFFF, 0x1_0000_0000, max >> 1, (max >> 1) + 1, max - 1, max];
    for x in [n, remaining, box_size] {
        for d in [-16i64, -9, -8, -7, -1, 0, 1, 7, 8, 9, 16] {
            v.push(x.wrapping_add(d as u64));
        }
    }
    if entry > 0 {
        let c = remaining / entry;
        v.extend_from_slice(&[c.wrapping_sub(1), c, c + 1, c * 2]);
    }
    for x in v.iter_mut() {
        *x &= max;
    }
    v.sort();
    v.dedup();
    v
}

pub fn put(bytes: &mut [u8], off: usize, width: usize, val: u64) {
    for i in 0..width {
        if off + i < bytes.len() {
            bytes[off + i] = (val >> (8 * (width - 1 - i))) as u8;
        }
    }
}

pub fn get(bytes: &[u8], off: usize, width: usize) -> u64 {
    let mut v = 0u64;
    for i in 0..width {
        v = (v << 8) | *bytes.get(off + i).unwrap_or(&0) as u64;
    }
    v
}

impl Seed {
    pub fn enclosing_box_size(&self, off: usize) -> u64 {
        let mut best = self.bytes.len() as u64;
        for (s, sz) in &self.boxes {
            if *s <= off && (off as u64) < *s as u64 + *sz && *sz < best {
                best = *sz;
            }
        }
        best
    }
    pub fn values_for(&self, f: &Field) -> Vec<u64> {
        let n = self.bytes.len() as u64;
        let entry = match f.kind {
            Kind::Count => {
                if f.path.contains("stsc") {
                    12
                } else if f.path.contains("co64") || f.path.contains("stts") || f.path.contains("ctts") {
                    8
                } else {
                    4
                }
            }
            _ => 0,
        };
        let mut v = boundary_values(f.width, n, n - f.off as u64, self.enclosing_box_size(f.off), entry);
        if f.kind == Kind::FourCC {
            v = KNOWN_TYPES.iter().map(|t| u32::from_be_bytes(**t) as u64).collect();
            v.push(0x7A7A_7A7A);
        }
        if f.kind == Kind::Version {
            v = vec![0, 1, 2, 255];
        }
        if f.kind == Kind::Flags {
            v = vec![0, 1, 2, 4, 8, 0x10, 0x20, 0x100, 0x200, 0x400, 0x800, 0x10000, 0x20000, 0xFFFFFF, 0x000F01, 0x000305];
        }
        v
    }
}

pub const KNOWN_TYPES: [&[u8; 4]; 44] = [
    b"ftyp", b"moov", b"mvhd", b"trak", b"tkhd", b"edts", b"elst", b"mdia", b"mdhd", b"hdlr", b"minf", b"vmhd", b"smhd", b"dinf", b"dref", b"url ", b"stbl", b"stsd", b"avc1", b"avcC",
    b"hev1", b"hvcC", b"vp09", b"vpcC", b"mp4a", b"esds", b"tx3g", b"stts", b"ctts", b"stss", b"stsc", b"stsz", b"stco", b"co64", b"mvex", b"trex", b"moof", b"traf", b"tfhd", b"trun",
    b"udta", b"meta", b"ilst", b"emsg",
];

#[derive(Debug, Clone)]
pub struct Mutation {
    pub desc: String,
    /// (field path or "havoc", value class) for coverage
    pub cover: Vec<String>,
}

pub fn mutate_single(seed: &Seed, fi: usize, vi: usize) -> Option<(Vec<u8>, Mutation)> {
    let f = seed.fields.get(fi)?;
    let vals = seed.values_for(f);
    let v = *vals.get(vi)?;
    let mut b = seed.bytes.clone();
    if get(&b, f.off, f.width) == v {
        return None;
    }
    put(&mut b, f.off, f.width, v);
    Some((b, Mutation { desc: format!("{} @{} w{} := {:#x}", f.path, f.off, f.width, v), cover: vec![format!("{}|{:?}|{}", strip_digits(&f.path), f.kind, value_class(v, f.width))] }))
}

pub fn strip_digits(p: &str) -> String {
    let mut s = String::new();
    let mut in_br = false;
    for c in p.chars() {
        if c == '[' {
            in_br = true;
        }
        if !in_br && !(c.is_ascii_digit() && s.ends_with(|x: char| x == 'w' || x == 'b' || x == 'h' || x == '#' || x.is_ascii_digit())) {
            s.push(c);
        }
        if c == ']' {
            in_br = false;
        }
    }
    s
}

pub fn value_class(v: u64, width: usize) -> &'static str {
    let w = (width * 8) as u32;
    let max = if w >= 64 { u64::MAX } else { (1u64 << w) - 1 };
    if v == 0 {
        "zero"
    } else if v <= 16 {
        "tiny"
    } else if v == max || v == max - 1 {
        "max"
    } else if v > max >> 1 {
        "top_bit"
    } else if v >= 0x1_0000 {
        "large"
    } else {
        "mid"
    }
}

pub fn mutate_pair(seed: &Seed, rng: &mut Rng) -> Option<(Vec<u8>, Mutation)> {
    if seed.fields.len() < 2 {
        return None;
    }
    let a = rng.usize_below(seed.fields.len());
    // prefer a partner near-by (same box or parent/child), otherwise anywhere
    let b = if rng.chance(3, 4) { (a + 1 + rng.usize_below(8)).min(seed.fields.len() - 1) } else { rng.usize_below(seed.fields.len()) };
    let mut bytes = seed.bytes.clone();
    let mut desc = String::new();
    let mut cover = Vec::new();
    for fi in [a, b] {
        let f = &seed.fields[fi];
        let vals = seed.values_for(f);
        let v = vals[rng.usize_below(vals.len())];
        put(&mut bytes, f.off, f.width, v);
        desc.push_str(&format!("{} @{} w{} := {:#x}; ", f.path, f.off, f.width, v));
        cover.push(format!("{}|{:?}|{}", strip_digits(&f.path), f.kind, value_class(v, f.width)));
    }
    Some((bytes, Mutation { desc, cover }))
}

/// Directed pairs: every count guard is relative to the declared size of its own box, and that
/// size is only trustworthy because every container checks `child size <= own size`. So for
/// every count field the sizes of the innermost 1..=3 enclosing boxes are raised together with
/// the count (one dropped container check is enough for the count to become an allocation size).
pub fn size_count_cases(seed: &Seed) -> Vec<(Vec<u8>, Mutation)> {
    size_count_specs(seed).iter().map(|sp| apply_size_count(seed, sp)).collect()
}

/// Directed pairs of the second kind: a sample-size field together with an offset field (chunk
/// offset, base data offset, run data offset), both at extremes. Either alone is harmless for
/// a reader that bounds what it reads by the stream; together they reach arithmetic on
/// `offset + size` and any buffer sized from "what is left after the offset".
pub fn size_offset_cases(seed: &Seed) -> Vec<(Vec<u8>, Mutation)> {
    let sizes: Vec<usize> = seed.fields.iter().enumerate().filter(|(_, f)| f.path.contains(".sample_size#") || f.path.contains(".entry_size#") || f.path.contains(".default_sample_size#")).map(|(i, _)| i).take(2).collect();
    let offs: Vec<usize> = seed.fields.iter().enumerate().filter(|(_, f)| f.kind == Kind::Offset).map(|(i, _)| i).take(2).collect();
    let n = seed.bytes.len() as u64;
    let mut out = Vec::new();
    for si in &sizes {
        for oi in &offs {
            let (sf, of) = (&seed.fields[*si], &seed.fields[*oi]);
            let omax = if of.width >= 8 { u64::MAX } else { (1u64 << (8 * of.width)) - 1 };
            for sv in [0x1_0001u64, 0x7FFF_FFFF, 0xFFFF_FFFF] {
                for ov in [(omax >> 1) + 1, (omax >> 1) + 1 + n, omax, omax - n.min(omax)] {
                    let mut b = seed.bytes.clone();
                    put(&mut b, sf.off, sf.width, sv);
                    put(&mut b, of.off, of.width, ov);
                    out.push((b, Mutation { desc: format!("{} @{} := {:#x} and {} @{} := {:#x}", sf.path, sf.off, sv, of.path, of.off, ov), cover: vec![format!("{}+{}|size+offset", strip_digits(&sf.path), strip_digits(&of.path))] }));
                }
            }
        }
    }
    out
}

/// (field index, starts of the enclosing boxes to enlarge innermost first, size value, count value)
pub type SizeCountSpec = (usize, Vec<usize>, u64, u64);

pub fn size_count_specs(seed: &Seed) -> Vec<SizeCountSpec> {
    let mut out = Vec::new();
    for (fi, f) in seed.fields.iter().enumerate().filter(|(_, f)| f.kind == Kind::Count) {
        let mut chain: Vec<(usize, u64)> = seed.boxes.iter().cloned().filter(|(s, sz)| *s + 8 <= f.off && (f.off as u64) < *s as u64 + *sz).collect();
        chain.sort_by_key(|(_, sz)| *sz);
        if chain.is_empty() {
            continue;
        }
        for levels in 1..=chain.len().min(3) {
            for big in [0x7FFF_FFFFu64, 0xFFFF_FFFF, 0x00FF_FFFF] {
                for cnt in [0x00A0_0000u64, 0x0555_5555, 0x0FFF_FFFF, 0x7FFF_FFFF, 0xFFFF_FFFF] {
                    out.push((fi, chain.iter().take(levels).map(|(s, _)| *s).collect(), big, cnt));
                }
            }
        }
    }
    out
}

pub fn apply_size_count(seed: &Seed, spec: &SizeCountSpec) -> (Vec<u8>, Mutation) {
    let (fi, starts, big, cnt) = spec;
    let f = &seed.fields[*fi];
    let levels = starts.len();
    let mut b = seed.bytes.clone();
    for (k, start) in starts.iter().enumerate() {
        // inner boxes stay a little smaller than the outer ones
        put(&mut b, *start, 4, big - 64 * (levels - 1 - k) as u64);
    }
    put(&mut b, f.off, f.width, cnt & if f.width >= 8 { u64::MAX } else { (1u64 << (8 * f.width)) - 1 });
    (b, Mutation { desc: format!("{} @{} := {:#x} with the sizes of its {} innermost enclosing boxes := ~{:#x}", f.path, f.off, cnt, levels, big), cover: vec![format!("{}|size+count|{}", strip_digits(&f.path), levels)] })
}

pub fn mutate_havoc(seed: &Seed, others: &[Seed], rng: &mut Rng) -> (Vec<u8>, Mutation) {
    let mut b = seed.bytes.clone();
    let n = 1 + rng.usize_below(6);
    let mut desc = String::from("havoc:");
    for _ in 0..n {
        if b.is_empty() {
            break;
        }
        match rng.below(9) {
            0 => {
                let p = rng.usize_below(b.len());
                b[p] ^= 1 << rng.below(8);
                desc.push_str(&format!(" flip@{}", p));
            }
            1 => {
                let p = rng.usize_below(b.len());
                let l = 1 + rng.usize_below(8);
                let val = *rng.pick(&[0u8, 0xFF, 0x80, 0x7F, 1]);
                for i in p..(p + l).min(b.len()) {
                    b[i] = val;
                }
                desc.push_str(&format!(" run@{}x{}={:#x}", p, l, val));
            }
            2 => {
                let p = rng.usize_below(b.len());
                let l = 1 + rng.usize_below(64.min(b.len() - p));
                b.drain(p..p + l);
                desc.push_str(&format!(" del@{}x{}", p, l));
            }
            3 => {
                let p = rng.usize_below(b.len());
                let l = 1 + rng.usize_below(64.min(b.len() - p));
                let chunk: Vec<u8> = b[p..p + l].to_vec();
                let q = rng.usize_below(b.len());
                for (i, x) in chunk.iter().enumerate() {
                    b.insert(q + i, *x);
                }
                desc.push_str(&format!(" dup@{}x{}->{}", p, l, q));
            }
            4 => {
                let p = rng.usize_below(b.len());
                let l = 1 + rng.usize_below(16);
                let r = rng.bytes(l);
                for (i, x) in r.iter().enumerate() {
                    if p + i < b.len() {
                        b[p + i] = *x;
                    }
                }
                desc.push_str(&format!(" rnd@{}x{}", p, l));
            }
            5 => {
                // splice with another seed
                if !others.is_empty() {
                    let o = &others[rng.usize_below(others.len())];
                    let cut = rng.usize_below(b.len());
                    let oc = rng.usize_below(o.bytes.len().max(1));
                    b.truncate(cut);
                    b.extend_from_slice(&o.bytes[oc.min(o.bytes.len())..]);
                    desc.push_str(&format!(" splice@{}+{}[{}..]", cut, o.name, oc));
                }
            }
            6 => {
                let cut = rng.usize_below(b.len());
                b.truncate(cut);
                desc.push_str(&format!(" trunc@{}", cut));
            }
            7 => {
                // overwrite a 32-bit word with an interesting value
                if b.len() >= 4 {
                    let p = rng.usize_below(b.len() - 3);
                    let v = rng.biased_u32();
                    put(&mut b, p, 4, v as u64);
                    desc.push_str(&format!(" w32@{}={:#x}", p, v));
                }
            }
            _ => {
                // swap a fourcc for another known one
                if b.len() >= 8 {
                    let p = rng.usize_below(b.len() - 3);
                    let t = KNOWN_TYPES[rng.usize_below(KNOWN_TYPES.len())];
                    b[p..p + 4].copy_from_slice(t);
                    desc.push_str(&format!(" type@{}={}", p, String::from_utf8_lossy(t)));
                }
            }
        }
    }
    (b, Mutation { desc, cover: vec!["havoc".into()] })
}

// ---------------------------------------------------------------------------------------
// amplifier families (C07): a hostile structure replicated k times
// ---------------------------------------------------------------------------------------

pub const AMPLIFIERS: [&str; 20] = [
    "many_stsd_huge_entry_count", "many_containers_with_tiny_child", "many_traks_many_moofs", "many_stsd_esds_overrun", "many_trafs_long_run",
    "zero_size_child_in_moov", "zero_size_child_in_trak", "zero_size_child_in_stbl", "zero_size_child_in_udta", "zero_size_child_in_moof",
    "tiny_boxes_top", "tiny_children_in_moov", "many_traks_overlapping_avcc", "many_traks_overlapping_hvcc", "count_max_no_payload",
    "trun_count_max_no_fields", "nested_overrun_chain", "many_meta_rewind", "emsg_many", "many_moofs_one_sample_each",
];

/// Families whose hostile cost is pure CPU work of a later call (no stream operations) and
/// only rises above the timing noise floor on larger inputs: their targets are multiplied.
pub fn amplifier_scale(family: &str) -> usize {
    if family == "many_moofs_one_sample_each" {
        16
    } else {
        1
    }
}

fn base_trak(rng: &mut Rng, id: u32, codec: Codec) -> MTrack {
    let mut t = gen_track(rng, id, 2, 8, 1);
    t.codec = codec;
    t
}

/// Build an amplifier input of roughly `target` bytes.
pub fn amplifier(family: &str, target: usize, rng: &mut Rng) -> Vec<u8> {
    let ftyp = refenc::enc_ftyp(&refenc::FtypF { major: *b"isom", minor: 0, brands: vec![*b"isom"] });
    let mut movie = gen_movie(rng, 1, 2, 8);
    movie.tracks[0].id = 1;
    let offsets: Vec<Vec<u64>> = movie.tracks.iter().map(|t| vec![0u64; t.layout.chunks.len()]).collect();
    let mut moov = build_moov(&movie, &offsets, None);
    let zero_child = |typ: &[u8; 4]| -> BoxT {
        // a child whose size field is 0 (header only)
        let mut b = BoxT::new(typ);
        b.to_end = true;
        b
    };
    let mut top: Vec<BoxT> = Vec::new();
    match family {
        "zero_size_child_in_moov" | "zero_size_child_in_trak" | "zero_size_child_in_stbl" | "zero_size_child_in_udta" => {
            // the hostile child sits in front of padding so that the file has the target size
            let path: Vec<&[u8; 4]> = match family {
                "zero_size_child_in_moov" => vec![],
                "zero_size_child_in_trak" => vec![b"trak"],
                "zero_size_child_in_stbl" => vec![b"trak", b"mdia", b"minf", b"stbl"],
                _ => vec![],
            };
            if family == "zero_size_child_in_udta" {
                let mut u = BoxT::new(b"udta");
                u.push(zero_child(b"free"));
                u.push(refenc::free_box(b"free", target, 0));
                moov.push(u);
            } else if let Some(c) = moov.find_mut(&path) {
                c.push(zero_child(if family.ends_with("stbl") { b"stts" } else { b"free" }));
                c.push(refenc::free_box(b"free", target, 0));
            }
            top.push(ftyp);
            top.push(moov);
        }
        "zero_size_child_in_moof" => {
            let mut moof = BoxT::new(b"moof");
            moof.push(refenc::enc_mfhd(0, 0, 1));
            moof.push(zero_child(b"traf"));
            moof.push(refenc::free_box(b"free", target, 0));
            top.push(ftyp);
            top.push(moov);
            top.push(moof);
        }
        "tiny_boxes_top" => {
            // many top-level boxes with size fields 2..7 (smaller than a header) and 8
            let mut bytes = refenc::serialize(&[ftyp.clone(), moov.clone()]).bytes;
            let mut k = 0usize;
            let start = bytes.len();
            while bytes.len() - start < target {
                let s = [8u32, 2, 3, 4, 5, 6, 7][k % 7];
                bytes.extend_from_slice(&s.to_be_bytes());
                bytes.extend_from_slice(b"free");
                k += 1;
            }
            return bytes;
        }
        "many_containers_with_tiny_child" => {
            // N small containers (udta) inside moov, each holding one skipped child whose size
            // field is 2..7 (smaller than its own header): whatever a reader does with such a
            // child - seek a few bytes back, or read "the rest" - it does it N times, and every
            // container re-synchronises at its own end, so the walk goes on to the next one
            let mut k = 0usize;
            let mut total = 0usize;
            while total < target {
                let mut u = BoxT::new(b"udta");
                let mut pb = PB::new();
                let s = [4u32, 2, 3, 5, 6, 7][k % 6];
                pb.u32("size", Kind::BoxSize, s).raw(b"skip").raw(&[0u8; 8]);
                u.data(pb);
                total += 24;
                moov.push(u);
                k += 1;
            }
            top.push(ftyp);
            top.push(moov);
        }
        "tiny_children_in_moov" => {
            let mut pb = PB::new();
            let mut k = 0usize;
            while pb.b.len() < target {
                let s = [8u32, 2, 3, 4, 5, 6, 7, 9][k % 8];
                pb.u32("size", Kind::BoxSize, s).raw(b"skip");
                k += 1;
            }
            moov.data(pb);
            top.push(ftyp);
            top.push(moov);
        }
        "many_traks_overlapping_avcc" | "many_traks_overlapping_hvcc" => {
            // every trak's parameter set length points to (nearly) the end of the file
            let avc = family.ends_with("avcc");
            let k = (target / 700).max(2);
            let mut m = movie.clone();
            m.tracks.clear();
            for i in 0..k {
                m.tracks.push(base_trak(rng, i as u32 + 1, if avc { Codec::Avc } else { Codec::Hevc }));
            }
            let offs: Vec<Vec<u64>> = m.tracks.iter().map(|t| vec![0u64; t.layout.chunks.len()]).collect();
            let moov2 = build_moov(&m, &offs, None);
            let mut ser = refenc::serialize(&[ftyp.clone(), moov2, refenc::free_box(b"free", 64, 0)]);
            let n = ser.bytes.len();
            let fields: Vec<Field> = ser.fields.iter().filter(|f| f.path.ends_with(if avc { "sequenceParameterSetLength#0" } else { "nalUnitLength#0" })).cloned().collect();
            for f in fields {
                let remaining = n - f.off - 2;
                let v = remaining.saturating_sub(40).min(65535) as u64;
                put(&mut ser.bytes, f.off, 2, v);
            }
            return ser.bytes;
        }
        "count_max_no_payload" => {
            // every table's entry count is 2^32-1 while the box holds no entries; replicated traks
            let k = (target / 700).max(1);
            let mut m = movie.clone();
            m.tracks.clear();
            for i in 0..k {
                m.tracks.push(base_trak(rng, i as u32 + 1, Codec::Ttxt));
            }
            let offs: Vec<Vec<u64>> = m.tracks.iter().map(|t| vec![0u64; t.layout.chunks.len()]).collect();
            let moov2 = build_moov(&m, &offs, None);
            let mut ser = refenc::serialize(&[ftyp.clone(), moov2]);
            let which = rng.below(6);
            let fields: Vec<Field> = ser.fields.iter().filter(|f| f.kind == Kind::Count && f.path.contains(["stts", "ctts", "stsc", "stsz", "stco", "stss"][which as usize])).cloned().collect();
            for f in fields {
                put(&mut ser.bytes, f.off, f.width, 0xFFFF_FFFF);
            }
            return ser.bytes;
        }
        "trun_count_max_no_fields" => {
            // runs that declare 2^32-1 samples but carry no per-sample fields
            let k = (target / 60).max(1);
            top.push(ftyp);
            let mut mv = build_moov(&movie, &offsets, Some(vec![refenc::TrexF { track_id: 1, desc_index: 1, duration: 1, ..Default::default() }]));
            let _ = &mut mv;
            top.push(mv);
            let mut moof = BoxT::new(b"moof");
            moof.push(refenc::enc_mfhd(0, 0, 1));
            for j in 0..k {
                let mut traf = BoxT::new(b"traf");
                // every second run has a fragment-level default sample size and duration (so that
                // "no per-sample size" is a complete description of its samples)
                // (the first run is the one every large sample id resolves to: it has the defaults)
                // (every fourth one has the defaults 0: a guard of the form "count x default size
                // fits in the input" says nothing about a table of `count` entries then)
                let dflt = if j % 4 == 2 { Some(0) } else if j % 2 == 0 { Some(3) } else { None };
                traf.push(refenc::enc_tfhd(&refenc::TfhdF { track_id: 1, default_size: dflt, default_duration: dflt, ..Default::default() }));
                let mut tr = refenc::enc_trun(&refenc::TrunF { count: 0, ..Default::default() });
                if let Some(Part::Data(pb)) = tr.parts.first_mut() {
                    let l = pb.b.len();
                    pb.b[l - 4..].copy_from_slice(&0xFFFF_FFFFu32.to_be_bytes());
                }
                traf.push(tr);
                moof.push(traf);
            }
            top.push(moof);
        }
        "nested_overrun_chain" => {
            // containers nested k deep, each child's size field larger than what remains
            top.push(ftyp);
            let depth = (target / 16).clamp(2, 200);
            let mut inner = refenc::free_box(b"free", 8, 0);
            for d in 0..depth {
                let t: &[u8; 4] = [b"trak", b"mdia", b"minf", b"stbl", b"udta", b"moov"][d % 6];
                let mut c = BoxT::new(t);
                c.push(inner);
                inner = c;
            }
            let mut ser = refenc::serialize(&[top[0].clone(), inner]);
            // enlarge every second size field slightly beyond its parent
            let fs: Vec<Field> = ser.fields.iter().filter(|f| f.kind == Kind::BoxSize).cloned().collect();
            for (i, f) in fs.iter().enumerate() {
                if i % 2 == 1 {
                    let v = get(&ser.bytes, f.off, 4);
                    put(&mut ser.bytes, f.off, 4, v + 8);
                }
            }
            return ser.bytes;
        }
        "many_stsd_huge_entry_count" => {
            // K sample description boxes in a row inside one stbl, each declaring 2^32-1 entries
            // of which the first (and only) one is of an unsupported kind, and behind the last of
            // them a stray supported sample entry (tx3g) that lets a walk over "the following
            // entries" end without an error. A reader that loops over entry_count without
            // looking at the end of the stsd box walks over all the boxes behind it - K times.
            let mut m = movie.clone();
            m.tracks.clear();
            m.tracks.push(base_trak(rng, 1, Codec::Ttxt));
            let offs: Vec<Vec<u64>> = m.tracks.iter().map(|t| vec![0u64; t.layout.chunks.len()]).collect();
            let mut mv = build_moov(&m, &offs, None);
            let tx3g = refenc::enc_tx3g(&refenc::Tx3gF::default());
            let pad = (tx3g.size() as usize).max(24) + 8;
            let k = (target / (16 + 8 + pad)).max(2);
            if let Some(stbl) = mv.find_mut(&[b"trak", b"mdia", b"minf", b"stbl"]) {
                let mut fresh: Vec<Part> = Vec::new();
                for _ in 0..k {
                    let mut pb = PB::new();
                    pb.fullbox(0, 0);
                    pb.u32("entry_count", Kind::Count, 0xFFFF_FFFF);
                    let mut stsd = BoxT::leaf(b"stsd", pb);
                    // one entry of an unsupported kind, at least as large as the stray tx3g so that
                    // no "child larger than parent" check ends the walk early
                    stsd.push(refenc::free_box(b"hvc1", pad, 0));
                    fresh.push(Part::Child(stsd));
                }
                fresh.push(Part::Child(tx3g));
                // the K boxes and the stray entry come first; the track's own tables follow
                let old: Vec<Part> = stbl.parts.drain(..).filter(|p| !matches!(p, Part::Child(c) if &c.typ == b"stsd")).collect();
                stbl.parts = fresh;
                stbl.parts.extend(old);
            }
            top.push(ftyp);
            top.push(mv);
        }
        "many_stsd_esds_overrun" => {
            // K sample description boxes in one stbl (the last one wins), each with an esds whose
            // ES_Descriptor length reaches to the end of the file, followed by filler that parses
            // as a long chain of empty descriptors: every esds walks the whole filler.
            let k = (target / 260).max(2);
            let mut m = movie.clone();
            m.tracks.clear();
            m.tracks.push(base_trak(rng, 1, Codec::Aac));
            let offs: Vec<Vec<u64>> = m.tracks.iter().map(|t| vec![0u64; t.layout.chunks.len()]).collect();
            let mut mv = build_moov(&m, &offs, None);
            if let Some(stbl) = mv.find_mut(&[b"trak", b"mdia", b"minf", b"stbl"]) {
                let stsd = stbl.children().into_iter().find(|c| &c.typ == b"stsd").cloned();
                if let Some(mut stsd) = stsd {
                    // 4-byte (padded) ES_Descriptor length so that it can be patched in place
                    if let Some(mp4a) = stsd.find_mut(&[b"mp4a"]) {
                        let e = refenc::EsdsF { es_id: 1, object_type: 0x40, stream_type: 5, aot: 2, freq_index: 3, chan: 2, pad: [4, 0, 0, 0], ..Default::default() };
                        mp4a.parts.retain(|p| !matches!(p, Part::Child(_)));
                        let mut esds = refenc::enc_esds(&e);
                        // one more descriptor after SLConfig: unknown tag, 4-byte length patched below so
                        // that skipping it lands exactly on the filler
                        if let Some(Part::Data(pb)) = esds.parts.first_mut() {
                            pb.b.extend_from_slice(&[0x7F, 0x80, 0x80, 0x80, 0x00]);
                        }
                        mp4a.push(esds);
                    }
                    for _ in 1..k {
                        stbl.parts.insert(0, Part::Child(stsd.clone()));
                    }
                    if let Some(first) = stbl.find_mut(&[b"stsd"]) {
                        *first = stsd.clone();
                    }
                }
            }
            let mut filler = PB::new();
            for _ in 0..(target / 4).max(8) {
                filler.raw(&[0xFF, 0x00]);
            }
            let mut ser = refenc::serialize(&[ftyp.clone(), mv, BoxT::leaf(b"free", filler)]);
            let n = ser.bytes.len();
            let enc4 = |len: u32| [0x80 | ((len >> 21) & 0x7F) as u8, 0x80 | ((len >> 14) & 0x7F) as u8, 0x80 | ((len >> 7) & 0x7F) as u8, (len & 0x7F) as u8];
            // start of the filler payload (the trailing free box)
            let filler_start = ser.boxes.iter().filter(|b| &b.typ == b"free" && b.path.matches('/').count() == 0).map(|b| b.start + b.hdr).last().unwrap_or(n);
            let esds: Vec<(usize, u64)> = ser.boxes.iter().filter(|b| &b.typ == b"esds").map(|b| (b.start, b.size)).collect();
            for (st, sz) in esds {
                // the ES_Descriptor claims everything up to 8 bytes before the end of the file
                let len_pos = st + 8 + 4 + 1; // box header, version/flags, tag 0x03
                let body = len_pos + 4;
                ser.bytes[len_pos..len_pos + 4].copy_from_slice(&enc4((n - 8).saturating_sub(body) as u32));
                // the extra descriptor at the end of the esds jumps to the filler
                let jump_len_pos = st + sz as usize - 4;
                let after = jump_len_pos + 4;
                ser.bytes[jump_len_pos..jump_len_pos + 4].copy_from_slice(&enc4(filler_start.saturating_sub(after) as u32));
            }
            return ser.bytes;
        }
        "many_traks_many_moofs" => {
            // k tracks and m movie fragments at once (each fragment holds one track fragment of
            // track 1): anything sized "per track x per fragment" is quadratic in the input
            // length although every single count is honest and small.
            let k = (target / 2 / 420).max(2);
            let m = (target / 2 / 56).max(2);
            let mut mv = movie.clone();
            mv.tracks.clear();
            for i in 0..k {
                mv.tracks.push(base_trak(rng, i as u32 + 1, Codec::Ttxt));
            }
            let offs: Vec<Vec<u64>> = mv.tracks.iter().map(|t| vec![0u64; t.layout.chunks.len()]).collect();
            top.push(ftyp);
            top.push(build_moov(&mv, &offs, Some(vec![refenc::TrexF { track_id: 1, desc_index: 1, duration: 1, ..Default::default() }])));
            for i in 0..m {
                let mut moof = BoxT::new(b"moof");
                moof.push(refenc::enc_mfhd(0, 0, i as u32 + 1));
                let mut traf = BoxT::new(b"traf");
                traf.push(refenc::enc_tfhd(&refenc::TfhdF { track_id: 1, ..Default::default() }));
                moof.push(traf);
                top.push(moof);
            }
        }
        "many_moofs_one_sample_each" => {
            // m movie fragments, each with one track fragment holding one empty sample and NO
            // decode-time box (it is optional): every count and size is honest and tiny, but a
            // lookup that derives the time or position of a late sample by walking the earlier
            // samples, and finds each of them by walking the fragments, costs m x m.
            let m = (target / 72).max(2);
            top.push(ftyp);
            top.push(build_moov(&movie, &offsets, Some(vec![refenc::TrexF { track_id: 1, desc_index: 1, duration: 1, ..Default::default() }])));
            for i in 0..m {
                let mut moof = BoxT::new(b"moof");
                moof.push(refenc::enc_mfhd(0, 0, i as u32 + 1));
                let mut traf = BoxT::new(b"traf");
                traf.push(refenc::enc_tfhd(&refenc::TfhdF { track_id: 1, extra_flags: 0x020000, ..Default::default() }));
                traf.push(refenc::enc_trun(&refenc::TrunF { count: 1, data_offset: Some(0), sizes: Some(vec![0]), ..Default::default() }));
                moof.push(traf);
                top.push(moof);
            }
        }
        "many_trafs_long_run" => {
            // t-1 empty track fragments followed by one with a long run: the cost of reading the
            // last sample is (samples in the run) x (track fragments) if the lookup is repeated
            // per earlier sample.
            let t = (target / 2 / 44).max(2);
            let msamples = (target / 2 / 4).max(2) as u32;
            top.push(ftyp);
            top.push(build_moov(&movie, &offsets, Some(vec![refenc::TrexF { track_id: 1, desc_index: 1, duration: 1, ..Default::default() }])));
            let mut moof = BoxT::new(b"moof");
            moof.push(refenc::enc_mfhd(0, 0, 1));
            for _ in 0..t - 1 {
                let mut traf = BoxT::new(b"traf");
                traf.push(refenc::enc_tfhd(&refenc::TfhdF { track_id: 1, ..Default::default() }));
                traf.push(refenc::enc_trun(&refenc::TrunF { count: 0, sizes: Some(vec![]), ..Default::default() }));
                moof.push(traf);
            }
            let mut traf = BoxT::new(b"traf");
            traf.push(refenc::enc_tfhd(&refenc::TfhdF { track_id: 1, extra_flags: 0x020000, ..Default::default() }));
            traf.push(refenc::enc_tfdt(0, 0, 0));
            traf.push(refenc::enc_trun(&refenc::TrunF { count: msamples, data_offset: Some(0), sizes: Some(vec![0; msamples as usize]), ..Default::default() }));
            moof.push(traf);
            top.push(moof);
        }
        "many_meta_rewind" => {
            // many traks each with a meta box whose content is scanned twice. The tags are
            // drawn before anything that depends on the target size and are kept small, so
            // that the input size is a monotone function of the target alone.
            let mut tags = crate::props::c18::gen_tags(rng, true);
            tags.meta_fullbox = true;
            for it in tags.items.iter_mut() {
                it.2.truncate(24);
            }
            let k = (target / 900).max(1);
            let mut m = movie.clone();
            m.tracks.clear();
            for i in 0..k {
                m.tracks.push(base_trak(rng, i as u32 + 1, Codec::Aac));
            }
            let offs: Vec<Vec<u64>> = m.tracks.iter().map(|t| vec![0u64; t.layout.chunks.len()]).collect();
            let mut mv = build_moov(&m, &offs, None);
            for t in mv.children_mut() {
                if &t.typ == b"trak" {
                    t.push(build_tags(&tags));
                }
            }
            top.push(ftyp);
            top.push(mv);
        }
        _ => {
            // emsg_many
            top.push(ftyp);
            top.push(moov);
            let k = (target / 60).max(1);
            for i in 0..k {
                top.push(emsg_box(rng, (i % 2) as u8));
            }
        }
    }
    refenc::serialize(&top).bytes
}

// ---------------------------------------------------------------------------------------
// the reader sweep
// ---------------------------------------------------------------------------------------

#[derive(Debug, Clone, Default)]
pub struct CallObs {
    pub call: String,
    pub ops: u64,
    pub bytes: u64,
    pub cpu_ns: u64,
    pub peak: u64,
    pub max_req: u64,
    pub budget_hit: bool,
    /// bytes returned by a sample read (0 otherwise)
    pub returned: u64,
}

#[derive(Debug, Default)]
pub struct Obs {
    pub panics: Vec<(String, PanicInfo)>,
    pub calls: Vec<CallObs>,
    pub outcome: String,
    pub opened: bool,
    pub tracks: usize,
    pub accessor_calls: u64,
}

pub struct SweepCfg {
    pub measure_alloc: bool,
    pub max_sample_ids: u32,
    /// op / byte budgets as (A, B): budget = A + B*n
    pub ops_budget: (u64, u64),
    pub bytes_budget: (u64, u64),
    /// input length the budgets refer to (set by `sweep`)
    pub n: std::cell::Cell<u64>,
}

impl Default for SweepCfg {
    fn default() -> Self {
        SweepCfg { measure_alloc: false, max_sample_ids: 24, ops_budget: (4_000, 16), bytes_budget: (1 << 20, 16), n: std::cell::Cell::new(0) }
    }
}

fn measured<T>(obs: &mut Obs, cfg: &SweepCfg, ctl: &Rc<Ctl>, call: &str, f: impl FnOnce() -> T) -> Option<T> {
    let (o0, b0) = (ctl.ops.get(), ctl.bytes.get());
    // budgets are per call: A + B*n stream operations / bytes from now on
    let n = cfg.n.get();
    ctl.budget_ops.set(o0 + cfg.ops_budget.0 + cfg.ops_budget.1 * n);
    ctl.budget_bytes.set(b0 + cfg.bytes_budget.0 + cfg.bytes_budget.1 * n);
    ctl.budget_hit.set(false);
    let t0 = cpu::thread_cpu_ns();
    if cfg.measure_alloc {
        alloc::begin();
    }
    let r = panicmon::catch(f);
    let usage = if cfg.measure_alloc { alloc::end() } else { Default::default() };
    let t1 = cpu::thread_cpu_ns();
    obs.calls.push(CallObs { call: call.to_string(), ops: ctl.ops.get() - o0, bytes: ctl.bytes.get() - b0, cpu_ns: t1 - t0, peak: usage.peak, max_req: usage.max_req, budget_hit: ctl.budget_hit.get(), returned: 0 });
    match r {
        Ok(v) => Some(v),
        Err(p) => {
            obs.panics.push((call.to_string(), p));
            None
        }
    }
}

pub fn render_all(mp4: &Mp4Reader<MonReader>) -> u64 {
    // JSON and summary rendering of every parsed box (the mp4dump walk, extended)
    let mut n = 0u64;
    macro_rules! r {
        ($b:expr) => {{
            let _ = $b.to_json();
            let _ = $b.summary();
            let _ = $b.box_size();
            let _ = $b.box_type();
            n += 1;
        }};
    }
    r!(mp4.ftyp);
    r!(mp4.moov);
    r!(mp4.moov.mvhd);
    if let Some(m) = &mp4.moov.mvex {
        r!(m);
        if let Some(h) = &m.mehd {
            r!(h);
        }
        r!(m.trex);
    }
    if let Some(m) = &mp4.moov.meta {
        r!(m);
    }
    if let Some(u) = &mp4.moov.udta {
        r!(u);
        if let Some(m) = &u.meta {
            r!(m);
            if let MetaBox::Mdir { ilst: Some(i) } = m {
                let _ = Mp4Box::to_json(i);
                let _ = Mp4Box::summary(i);
                for it in i.items.values() {
                    r!(it.data);
                }
            }
        }
    }
    for t in &mp4.moov.traks {
        r!(t);
        r!(t.tkhd);
        if let Some(e) = &t.edts {
            r!(e);
            if let Some(l) = &e.elst {
                r!(l);
            }
        }
        if let Some(m) = &t.meta {
            r!(m);
        }
        r!(t.mdia);
        r!(t.mdia.mdhd);
        r!(t.mdia.hdlr);
        r!(t.mdia.minf);
        if let Some(v) = &t.mdia.minf.vmhd {
            r!(v);
        }
        if let Some(v) = &t.mdia.minf.smhd {
            r!(v);
        }
        r!(t.mdia.minf.dinf);
        let s = &t.mdia.minf.stbl;
        r!(s);
        r!(s.stsd);
        if let Some(a) = &s.stsd.avc1 {
            r!(a);
            r!(a.avcc);
        }
        if let Some(a) = &s.stsd.hev1 {
            r!(a);
            r!(a.hvcc);
        }
        if let Some(a) = &s.stsd.vp09 {
            r!(a);
            r!(a.vpcc);
        }
        if let Some(a) = &s.stsd.mp4a {
            r!(a);
            if let Some(e) = &a.esds {
                r!(e);
            }
        }
        if let Some(a) = &s.stsd.tx3g {
            r!(a);
        }
        r!(s.stts);
        if let Some(x) = &s.ctts {
            r!(x);
        }
        if let Some(x) = &s.stss {
            r!(x);
        }
        r!(s.stsc);
        r!(s.stsz);
        if let Some(x) = &s.stco {
            r!(x);
        }
        if let Some(x) = &s.co64 {
            r!(x);
        }
    }
    for m in &mp4.moofs {
        r!(m);
        r!(m.mfhd);
        for t in &m.trafs {
            r!(t);
            r!(t.tfhd);
            if let Some(x) = &t.tfdt {
                r!(x);
            }
            if let Some(x) = &t.trun {
                r!(x);
            }
        }
    }
    for e in &mp4.emsgs {
        r!(e);
    }
    n
}

fn accessor_sweep(mp4: &mut Mp4Reader<MonReader>, ctl: &Rc<Ctl>, cfg: &SweepCfg, obs: &mut Obs, tag: &str) {
    let n = measured(obs, cfg, ctl, &format!("{}:movie_accessors", tag), || {
        let _ = mp4.size();
        let _ = mp4.major_brand();
        let _ = mp4.minor_version();
        let _ = mp4.compatible_brands().len();
        let _ = mp4.duration();
        let _ = mp4.timescale();
        let _ = mp4.is_fragmented();
        let md = mp4.metadata();
        let _ = md.title();
        let _ = md.year();
        let _ = md.poster().map(|p| p.len());
        let _ = md.summary();
        8u64
    });
    obs.accessor_calls += n.unwrap_or(0);
    let n = measured(obs, cfg, ctl, &format!("{}:render", tag), || render_all(mp4));
    obs.accessor_calls += n.unwrap_or(0);
    let mut ids: Vec<u32> = mp4.tracks().keys().cloned().collect();
    ids.sort();
    obs.tracks = ids.len();
    let n = measured(obs, cfg, ctl, &format!("{}:track_accessors", tag), || {
        let mut k = 0u64;
        for id in &ids {
            let t = &mp4.tracks()[id];
            let _ = t.track_id();
            let _ = t.track_type();
            let _ = t.media_type();
            let _ = t.box_type();
            let _ = t.width();
            let _ = t.height();
            let _ = t.frame_rate();
            let _ = t.sample_freq_index();
            let _ = t.channel_config();
            let _ = t.language().len();
            let _ = t.timescale();
            let _ = t.duration();
            let _ = t.bitrate();
            let _ = t.sample_count();
            let _ = t.video_profile();
            let _ = t.sequence_parameter_set().map(|x| x.len());
            let _ = t.picture_parameter_set().map(|x| x.len());
            let _ = t.audio_profile();
            k += 18;
        }
        k
    });
    obs.accessor_calls += n.unwrap_or(0);
    let max_id = ids.iter().max().cloned().unwrap_or(0);
    let mut tids = ids.clone();
    tids.push(0);
    tids.push(max_id.wrapping_add(1));
    for tid in tids {
        let count = measured(obs, cfg, ctl, &format!("{}:sample_count", tag), || mp4.sample_count(tid).unwrap_or(0)).unwrap_or(0);
        let mut sids: Vec<u32> = vec![0, 1, 2, 3];
        for k in 4..=count.min(cfg.max_sample_ids) {
            sids.push(k);
        }
        for k in [count.wrapping_sub(1), count, count.wrapping_add(1), count.wrapping_add(2), 1 << 31, u32::MAX - 1, u32::MAX] {
            sids.push(k);
        }
        sids.sort();
        sids.dedup();
        for sid in sids {
            measured(obs, cfg, ctl, &format!("{}:sample_offset", tag), || {
                let _ = mp4.sample_offset(tid, sid);
            });
            let idx = obs.calls.len();
            let r = measured(obs, cfg, ctl, &format!("{}:read_sample", tag), || mp4.read_sample(tid, sid).ok().flatten().map(|s| s.bytes.len() as u64));
            if let Some(Some(l)) = r {
                obs.calls[idx].returned = l;
            }
            obs.accessor_calls += 2;
        }
    }
}

/// Open `bytes` (and as a fragment against `inits`) under all monitors and call everything.
pub fn sweep(bytes: &Rc<Vec<u8>>, inits: &[Rc<Vec<u8>>], cfg: &SweepCfg) -> Obs {
    let mut obs = Obs::default();
    let n = bytes.len() as u64;
    let ctl = Ctl::new();
    cfg.n.set(n);
    let data = bytes.clone();
    let c2 = ctl.clone();
    let r = measured(&mut obs, cfg, &ctl, "read_header", move || Mp4Reader::read_header(MonReader::new(data, c2), n));
    match r {
        Some(Ok(mut mp4)) => {
            obs.opened = true;
            obs.outcome = "ok".into();
            accessor_sweep(&mut mp4, &ctl, cfg, &mut obs, "file");
        }
        Some(Err(e)) => {
            obs.outcome = format!("err:{}", e);
        }
        None => obs.outcome = "panic".into(),
    }
    for (i, init) in inits.iter().enumerate() {
        let il = init.len() as u64;
        let ictl = Ctl::new();
        let idata = init.clone();
        let base = match panicmon::catch(move || Mp4Reader::read_header(MonReader::new(idata, ictl), il)) {
            Ok(Ok(b)) => b,
            _ => continue,
        };
        let fctl = Ctl::new();
        let data = bytes.clone();
        let c2 = fctl.clone();
        let r = measured(&mut obs, cfg, &fctl, "read_fragment_header", || base.read_fragment_header(MonReader::new(data, c2), n));
        if let Some(Ok(mut mp4)) = r {
            obs.outcome.push_str(&format!("+frag{}ok", i));
            accessor_sweep(&mut mp4, &fctl, cfg, &mut obs, "frag");
        } else if let Some(Err(e)) = r {
            if i == 0 {
                obs.outcome.push_str(&format!("+frag:{}", e));
            }
        }
    }
    obs
}
