//! Panic monitor: a panic hook that records (file, line, message) and a catch_unwind wrapper.

use std::cell::RefCell;
use std::panic::{self, AssertUnwindSafe};

#[derive(Debug, Clone)]
pub struct PanicInfo {
    pub file: String,
    pub line: u32,
    pub msg: String,
}

impl PanicInfo {
    pub fn site(&self) -> String {
        format!("{}:{}", self.file, self.line)
    }
}

thread_local! {
    static LAST: RefCell<Option<PanicInfo>> = const { RefCell::new(None) };
}

pub fn install() {
    panic::set_hook(Box::new(|info| {
        let (file, line) = info
            .location()
            .map(|l| (l.file().to_string(), l.line()))
            .unwrap_or_else(|| ("?".to_string(), 0));
        let msg = if let Some(s) = info.payload().downcast_ref::<&str>() {
            s.to_string()
        } else if let Some(s) = info.payload().downcast_ref::<String>() {
            s.clone()
        } else {
            "<non-string panic payload>".to_string()
        };
        LAST.with(|l| *l.borrow_mut() = Some(PanicInfo { file, line, msg }));
    }));
}

/// Run `f`; a panic is caught and returned with its recorded site.
pub fn catch<T>(f: impl FnOnce() -> T) -> Result<T, PanicInfo> {
    LAST.with(|l| *l.borrow_mut() = None);
    match panic::catch_unwind(AssertUnwindSafe(f)) {
        Ok(v) => Ok(v),
        Err(_) => Err(LAST.with(|l| l.borrow_mut().take()).unwrap_or(PanicInfo {
            file: "?".into(),
            line: 0,
            msg: "panic without hook record".into(),
        })),
    }
}
