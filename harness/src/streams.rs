//! Instrumented streams: operation / byte counters, logical budgets, single-fault injection,
//! short transfers and `Interrupted` injection, and a sparse >4 GiB read/write stream.

use std::cell::{Cell, RefCell};
use std::io::{self, Read, Seek, SeekFrom, Write};
use std::rc::Rc;

#[derive(Clone, Copy, Debug, PartialEq, Eq)]
pub enum FaultKind {
    /// the call returns Err(Other)
    Error,
    /// a write call returns Ok(0)
    WriteZero,
}

#[derive(Clone, Copy, Debug, PartialEq, Eq)]
pub enum OpKind {
    Read,
    Seek,
    Write,
    Flush,
}

/// Shared control / observation block of a monitored stream.
#[derive(Debug)]
pub struct Ctl {
    pub ops: Cell<u64>,
    pub reads: Cell<u64>,
    pub seeks: Cell<u64>,
    pub writes: Cell<u64>,
    pub bytes: Cell<u64>,
    /// budget in operations (0 = unlimited)
    pub budget_ops: Cell<u64>,
    /// budget in transferred bytes (0 = unlimited)
    pub budget_bytes: Cell<u64>,
    pub budget_hit: Cell<bool>,
    /// inject a fault at the op with this index (0-based), if any
    pub fault_at: Cell<Option<u64>>,
    pub fault_kind: Cell<FaultKind>,
    pub fault_fired: Cell<Option<OpKind>>,
    /// added to the call index when the ErrorKind of an injected error is chosen
    pub fault_kind_sel: Cell<u64>,
    /// max bytes per read/write call (0 = unlimited)
    pub chunk: Cell<usize>,
    /// if true, chunk sizes vary pseudo-randomly in 1..=chunk
    pub chunk_random: Cell<bool>,
    /// every n-th transfer call first returns Interrupted (0 = never)
    pub interrupt_every: Cell<u64>,
    pub interrupts: Cell<u64>,
    lcg: Cell<u64>,
    /// the offsets of the last few read calls (for hang diagnostics)
    pub recent: RefCell<Vec<(u64, usize)>>,
    /// highest offset+len ever read
    pub max_read_end: Cell<u64>,
}

impl Ctl {
    pub fn new() -> Rc<Ctl> {
        Rc::new(Ctl {
            ops: Cell::new(0),
            reads: Cell::new(0),
            seeks: Cell::new(0),
            writes: Cell::new(0),
            bytes: Cell::new(0),
            budget_ops: Cell::new(0),
            budget_bytes: Cell::new(0),
            budget_hit: Cell::new(false),
            fault_at: Cell::new(None),
            fault_kind: Cell::new(FaultKind::Error),
            fault_fired: Cell::new(None),
            fault_kind_sel: Cell::new(0),
            chunk: Cell::new(0),
            chunk_random: Cell::new(false),
            interrupt_every: Cell::new(0),
            interrupts: Cell::new(0),
            lcg: Cell::new(0x1234_5678_9abc_def1),
            recent: RefCell::new(Vec::new()),
            max_read_end: Cell::new(0),
        })
    }

    pub fn reset_counts(&self) {
        self.ops.set(0);
        self.reads.set(0);
        self.seeks.set(0);
        self.writes.set(0);
        self.bytes.set(0);
        self.budget_hit.set(false);
        self.fault_fired.set(None);
        self.interrupts.set(0);
        self.recent.borrow_mut().clear();
    }

    fn next_rand(&self) -> u64 {
        let mut x = self.lcg.get();
        x ^= x << 13;
        x ^= x >> 7;
        x ^= x << 17;
        self.lcg.set(x);
        x
    }

    pub fn set_rand_seed(&self, s: u64) {
        self.lcg.set(s | 1);
    }

    /// Common prologue of every stream call. Returns Err for an injected fault / exhausted
    /// budget; Ok(true) if a WriteZero fault is to be simulated by the caller.
    fn enter(&self, kind: OpKind) -> io::Result<bool> {
        let idx = self.ops.get();
        self.ops.set(idx + 1);
        match kind {
            OpKind::Read => self.reads.set(self.reads.get() + 1),
            OpKind::Seek => self.seeks.set(self.seeks.get() + 1),
            OpKind::Write | OpKind::Flush => self.writes.set(self.writes.get() + 1),
        }
        let b = self.budget_ops.get();
        if b != 0 && idx >= b {
            self.budget_hit.set(true);
            return Err(io::Error::new(io::ErrorKind::Other, "verif: op budget exceeded"));
        }
        if let Some(k) = self.fault_at.get() {
            if k == idx {
                self.fault_fired.set(Some(kind));
                match self.fault_kind.get() {
                    FaultKind::Error => {
                        // the kind of the injected error varies with the call index: a stream
                        // may fail with any kind (a cut TLS / HTTP transport reports
                        // UnexpectedEof from read), and every one of them is an I/O failure
                        // that has to surface. Interrupted is excluded: it has retry semantics.
                        const KINDS: [io::ErrorKind; 8] = [
                            io::ErrorKind::Other, io::ErrorKind::UnexpectedEof, io::ErrorKind::BrokenPipe, io::ErrorKind::TimedOut,
                            io::ErrorKind::ConnectionReset, io::ErrorKind::PermissionDenied, io::ErrorKind::InvalidData, io::ErrorKind::WouldBlock,
                        ];
                        return Err(io::Error::new(KINDS[((idx + self.fault_kind_sel.get()) % 8) as usize], "verif: injected fault"));
                    }
                    FaultKind::WriteZero => {
                        if kind == OpKind::Write {
                            return Ok(true);
                        }
                        return Err(io::Error::new(io::ErrorKind::Other, "verif: injected fault"));
                    }
                }
            }
        }
        Ok(false)
    }

    fn transfer_len(&self, want: usize) -> io::Result<usize> {
        let ie = self.interrupt_every.get();
        if ie != 0 && want > 0 {
            // interrupt on a pseudo-random subset of calls
            if self.next_rand() % ie == 0 {
                self.interrupts.set(self.interrupts.get() + 1);
                return Err(io::Error::new(io::ErrorKind::Interrupted, "verif: interrupted"));
            }
        }
        let c = self.chunk.get();
        if c == 0 || want == 0 {
            return Ok(want);
        }
        let lim = if self.chunk_random.get() {
            1 + (self.next_rand() % c as u64) as usize
        } else {
            c
        };
        Ok(want.min(lim))
    }

    fn account(&self, n: usize) -> io::Result<()> {
        let t = self.bytes.get() + n as u64;
        self.bytes.set(t);
        let b = self.budget_bytes.get();
        if b != 0 && t > b {
            self.budget_hit.set(true);
            return Err(io::Error::new(io::ErrorKind::Other, "verif: byte budget exceeded"));
        }
        Ok(())
    }
}

fn seek_calc(pos: u64, len: u64, to: SeekFrom) -> io::Result<u64> {
    let (base, off) = match to {
        SeekFrom::Start(n) => return Ok(n),
        SeekFrom::End(n) => (len, n),
        SeekFrom::Current(n) => (pos, n),
    };
    let np = if off >= 0 {
        base.checked_add(off as u64)
    } else {
        base.checked_sub(off.unsigned_abs())
    };
    np.ok_or_else(|| {
        io::Error::new(
            io::ErrorKind::InvalidInput,
            "invalid seek to a negative or overflowing position",
        )
    })
}

/// Read + Seek over shared immutable bytes (semantics of `std::io::Cursor`).
pub struct MonReader {
    pub data: Rc<Vec<u8>>,
    pub pos: u64,
    pub ctl: Rc<Ctl>,
}

impl MonReader {
    pub fn new(data: Rc<Vec<u8>>, ctl: Rc<Ctl>) -> Self {
        MonReader { data, pos: 0, ctl }
    }
    pub fn plain(data: Rc<Vec<u8>>) -> Self {
        MonReader { data, pos: 0, ctl: Ctl::new() }
    }
}

impl Read for MonReader {
    fn read(&mut self, buf: &mut [u8]) -> io::Result<usize> {
        self.ctl.enter(OpKind::Read)?;
        let len = self.data.len() as u64;
        let start = self.pos.min(len) as usize;
        let avail = self.data.len() - start;
        let want = buf.len().min(avail);
        let n = self.ctl.transfer_len(want)?;
        buf[..n].copy_from_slice(&self.data[start..start + n]);
        {
            let mut r = self.ctl.recent.borrow_mut();
            if r.len() >= 16 {
                r.remove(0);
            }
            r.push((self.pos, buf.len()));
        }
        self.pos += n as u64;
        if self.pos > self.ctl.max_read_end.get() {
            self.ctl.max_read_end.set(self.pos);
        }
        self.ctl.account(n)?;
        Ok(n)
    }
}

impl Seek for MonReader {
    fn seek(&mut self, to: SeekFrom) -> io::Result<u64> {
        self.ctl.enter(OpKind::Seek)?;
        let np = seek_calc(self.pos, self.data.len() as u64, to)?;
        self.pos = np;
        Ok(np)
    }
}

/// Write + Seek (+ Read) over an owned growable buffer (semantics of `Cursor<Vec<u8>>`),
/// optionally starting at a non-zero logical position (`origin`): the buffer then holds
/// the bytes from `origin` on.
pub struct MonWriter {
    pub buf: Vec<u8>,
    pub pos: u64,
    pub ctl: Rc<Ctl>,
    /// end of the highest byte range written so far (the sink may hold more: old content)
    pub high: u64,
}

impl MonWriter {
    pub fn new(ctl: Rc<Ctl>) -> Self {
        MonWriter { buf: Vec::new(), pos: 0, ctl, high: 0 }
    }
    pub fn plain() -> Self {
        MonWriter { buf: Vec::new(), pos: 0, ctl: Ctl::new(), high: 0 }
    }
    /// a sink that already holds `old` (a file opened for writing without truncation, a
    /// reused buffer); writing starts at position 0
    pub fn prefilled(old: Vec<u8>) -> Self {
        MonWriter { buf: old, pos: 0, ctl: Ctl::new(), high: 0 }
    }
}

impl Write for MonWriter {
    fn write(&mut self, data: &[u8]) -> io::Result<usize> {
        let zero = self.ctl.enter(OpKind::Write)?;
        if zero {
            return Ok(0);
        }
        let n = self.ctl.transfer_len(data.len())?;
        let pos = self.pos as usize;
        if pos > self.buf.len() {
            self.buf.resize(pos, 0);
        }
        let overlap = (self.buf.len() - pos).min(n);
        self.buf[pos..pos + overlap].copy_from_slice(&data[..overlap]);
        self.buf.extend_from_slice(&data[overlap..n]);
        self.pos += n as u64;
        if n > 0 {
            self.high = self.high.max(self.pos);
        }
        self.ctl.account(n)?;
        Ok(n)
    }
    fn flush(&mut self) -> io::Result<()> {
        self.ctl.enter(OpKind::Flush)?;
        Ok(())
    }
}

impl Seek for MonWriter {
    fn seek(&mut self, to: SeekFrom) -> io::Result<u64> {
        self.ctl.enter(OpKind::Seek)?;
        let np = seek_calc(self.pos, self.buf.len() as u64, to)?;
        self.pos = np;
        Ok(np)
    }
}

// ---------------------------------------------------------------------------------------
// Sparse stream for > 4 GiB muxing (C13)
// ---------------------------------------------------------------------------------------

/// A stored extent: either literal bytes or a run of a repeated filler byte pattern.
#[derive(Debug, Clone)]
pub enum Extent {
    Lit(Vec<u8>),
    /// `len` bytes, byte at absolute offset o (within extent) = pattern(seed, o)
    Fill { seed: u64, len: u64 },
}

/// Deterministic filler: byte i of a payload with a given seed.
#[inline]
pub fn fill_byte(seed: u64, i: u64) -> u8 {
    // cheap, position dependent, seed dependent
    let x = (i ^ seed).wrapping_mul(0x9E37_79B9_7F4A_7C15);
    (x >> 56) as u8 ^ (i as u8)
}

/// Write + Seek + Read. Writes of at most `lit_max` bytes are stored literally; larger
/// writes must be "synthetic payloads" (16-byte tag: magic, seed, len; followed by
/// fill_byte(seed, i)) and are verified while being written, then stored as `Fill`.
#[derive(Clone)]
pub struct SparseStream {
    /// sorted by start, non-overlapping
    pub extents: Vec<(u64, Extent)>,
    pub pos: u64,
    pub len: u64,
    pub lit_max: usize,
    pub writes: u64,
    pub bad_payload: Option<String>,
    /// > 0: a write of at most 64 bytes (header fields, size patches) is accepted only up to
    /// this many bytes - a legal short write; bulk payload writes are taken whole
    pub short_small_writes: usize,
}

pub const SYN_MAGIC: u32 = 0x5359_4E21; // "SYN!"

/// Seed of the filler shared by all synthetic payloads (bytes 16.. do not depend on the
/// payload's own seed, so large samples can be produced by memcpy from one master buffer).
pub const SYN_FILL: u64 = 0x5EED_F111_0000_0001;
pub const SYN_MASTER_LEN: usize = 80 << 20;

static MASTER: std::sync::OnceLock<Vec<u8>> = std::sync::OnceLock::new();

fn master() -> &'static [u8] {
    MASTER.get_or_init(|| {
        let mut v = Vec::with_capacity(SYN_MASTER_LEN);
        for i in 0..SYN_MASTER_LEN {
            v.push(fill_byte(SYN_FILL, i as u64));
        }
        v
    })
}

fn syn_header(seed: u64, len: u64) -> [u8; 16] {
    let mut hdr = [0u8; 16];
    hdr[..4].copy_from_slice(&SYN_MAGIC.to_be_bytes());
    hdr[4..12].copy_from_slice(&seed.to_be_bytes());
    hdr[12..16].copy_from_slice(&(len as u32).to_be_bytes());
    hdr
}

/// Build the literal bytes of a synthetic payload: 16-byte tag (magic, seed, length) followed
/// by the shared filler.
pub fn synth_payload(seed: u64, len: usize) -> Vec<u8> {
    assert!(len >= 16);
    let mut v;
    if len <= SYN_MASTER_LEN {
        v = master()[..len].to_vec();
    } else {
        v = Vec::with_capacity(len);
        v.extend_from_slice(master());
        for i in SYN_MASTER_LEN..len {
            v.push(fill_byte(SYN_FILL, i as u64));
        }
    }
    v[..16].copy_from_slice(&syn_header(seed, len as u64));
    v
}

pub fn synth_byte(seed: u64, len: u64, i: u64) -> u8 {
    if i < 16 {
        syn_header(seed, len)[i as usize]
    } else {
        fill_byte(SYN_FILL, i)
    }
}

impl SparseStream {
    pub fn new(start_pos: u64) -> Self {
        SparseStream {
            extents: Vec::new(),
            pos: start_pos,
            len: start_pos,
            lit_max: 1 << 16,
            writes: 0,
            bad_payload: None,
            short_small_writes: 0,
        }
    }

    fn insert(&mut self, start: u64, e: Extent) {
        let elen = match &e {
            Extent::Lit(v) => v.len() as u64,
            Extent::Fill { len, .. } => *len,
        };
        let end = start + elen;
        // Overwrites only ever happen for small header patches that fall inside one literal
        // extent (mdat size patch): handle that case, otherwise append / insert sorted.
        if let Extent::Lit(v) = &e {
            for (s, ex) in self.extents.iter_mut() {
                if let Extent::Lit(old) = ex {
                    let oend = *s + old.len() as u64;
                    if start >= *s && end <= oend {
                        let o = (start - *s) as usize;
                        old[o..o + v.len()].copy_from_slice(v);
                        return;
                    }
                }
            }
            // patch spanning two adjacent literal extents: split write byte by byte
            let mut all_inside = true;
            for (i, b) in v.iter().enumerate() {
                let p = start + i as u64;
                let mut done = false;
                for (s, ex) in self.extents.iter_mut() {
                    if let Extent::Lit(old) = ex {
                        let oend = *s + old.len() as u64;
                        if p >= *s && p < oend {
                            old[(p - *s) as usize] = *b;
                            done = true;
                            break;
                        }
                    }
                }
                if !done {
                    all_inside = false;
                    break;
                }
            }
            if all_inside && !v.is_empty() && start < self.len {
                return;
            }
        }
        if start < self.len {
            // overlapping a Fill extent or partially overlapping: not something the muxer does
            self.bad_payload = Some(format!(
                "unsupported overwrite at {} len {} (stream len {})",
                start, elen, self.len
            ));
            return;
        }
        self.extents.push((start, e));
    }

    pub fn byte_at(&self, p: u64) -> Option<u8> {
        // binary search over extents
        let idx = self.extents.partition_point(|(s, _)| *s <= p);
        if idx == 0 {
            return None;
        }
        let (s, e) = &self.extents[idx - 1];
        match e {
            Extent::Lit(v) => v.get((p - *s) as usize).copied(),
            Extent::Fill { seed, len } => {
                if p - *s < *len {
                    Some(synth_byte(*seed, *len, p - *s))
                } else {
                    None
                }
            }
        }
    }

    /// Copy out a range as literal bytes (holes read as 0).
    pub fn read_range(&self, start: u64, n: usize) -> Vec<u8> {
        let mut out = vec![0u8; n];
        self.read_into(start, &mut out);
        out
    }

    fn read_into(&self, start: u64, out: &mut [u8]) -> usize {
        let end = (start + out.len() as u64).min(self.len);
        if end <= start {
            return 0;
        }
        let n = (end - start) as usize;
        let mut idx = self.extents.partition_point(|(s, _)| *s <= start);
        if idx > 0 {
            idx -= 1;
        }
        for b in out[..n].iter_mut() {
            *b = 0;
        }
        while idx < self.extents.len() {
            let (s, e) = &self.extents[idx];
            if *s >= end {
                break;
            }
            let elen = match e {
                Extent::Lit(v) => v.len() as u64,
                Extent::Fill { len, .. } => *len,
            };
            let es = (*s).max(start);
            let ee = (*s + elen).min(end);
            if es < ee {
                match e {
                    Extent::Lit(v) => {
                        out[(es - start) as usize..(ee - start) as usize]
                            .copy_from_slice(&v[(es - *s) as usize..(ee - *s) as usize]);
                    }
                    Extent::Fill { seed, len } => {
                        let a = (es - *s) as usize;
                        let b = (ee - *s) as usize;
                        let dst = &mut out[(es - start) as usize..(ee - start) as usize];
                        if b <= SYN_MASTER_LEN {
                            dst.copy_from_slice(&master()[a..b]);
                            if a < 16 {
                                let hdr = syn_header(*seed, *len);
                                for i in a..b.min(16) {
                                    dst[i - a] = hdr[i];
                                }
                            }
                        } else {
                            for p in es..ee {
                                out[(p - start) as usize] = synth_byte(*seed, *len, p - *s);
                            }
                        }
                    }
                }
            }
            idx += 1;
        }
        n
    }
}

impl Write for SparseStream {
    fn write(&mut self, data: &[u8]) -> io::Result<usize> {
        self.writes += 1;
        let start = self.pos;
        let data = if self.short_small_writes > 0 && data.len() <= 64 && data.len() > self.short_small_writes { &data[..self.short_small_writes] } else { data };
        if data.len() <= self.lit_max {
            // try to append to the previous literal extent to keep the extent list short
            if start == self.len {
                if let Some((s, Extent::Lit(v))) = self.extents.last_mut() {
                    if *s + v.len() as u64 == start && v.len() < (1 << 20) {
                        v.extend_from_slice(data);
                        self.pos += data.len() as u64;
                        self.len = self.len.max(self.pos);
                        return Ok(data.len());
                    }
                }
            }
            self.insert(start, Extent::Lit(data.to_vec()));
        } else {
            // must be a concatenation of synthetic payloads
            let mut off = 0usize;
            while off < data.len() {
                if data.len() - off < 16
                    || u32::from_be_bytes([data[off], data[off + 1], data[off + 2], data[off + 3]])
                        != SYN_MAGIC
                {
                    // literal (small) piece inside a big chunk: find the next magic or end
                    // -- small samples are literal; they carry their own 16-byte tag too, so
                    // this branch means a payload we cannot verify cheaply: store literally.
                    let rest = data[off..].to_vec();
                    let l = rest.len();
                    self.insert(start + off as u64, Extent::Lit(rest));
                    off += l;
                    continue;
                }
                let mut sb = [0u8; 8];
                sb.copy_from_slice(&data[off + 4..off + 12]);
                let seed = u64::from_be_bytes(sb);
                let plen = u32::from_be_bytes([
                    data[off + 12],
                    data[off + 13],
                    data[off + 14],
                    data[off + 15],
                ]) as usize;
                if plen < 16 || off + plen > data.len() {
                    self.bad_payload = Some(format!("synthetic payload length {} overruns write", plen));
                    let rest = data[off..].to_vec();
                    let l = rest.len();
                    self.insert(start + off as u64, Extent::Lit(rest));
                    off += l;
                    continue;
                }
                // verify filler (sampled densely: every byte for the first/last 4 KiB, every 97th otherwise)
                let p = &data[off..off + plen];
                let mut ok = true;
                let mut i = 16usize;
                while i < plen {
                    if p[i] != fill_byte(SYN_FILL, i as u64) {
                        ok = false;
                        break;
                    }
                    if i < 4096 || i + 4096 >= plen {
                        i += 1;
                    } else {
                        i += 97;
                    }
                }
                if !ok {
                    self.bad_payload = Some(format!("payload seed {} corrupted at {}", seed, i));
                }
                if plen <= self.lit_max {
                    self.insert(start + off as u64, Extent::Lit(p.to_vec()));
                } else {
                    self.insert(start + off as u64, Extent::Fill { seed, len: plen as u64 });
                }
                off += plen;
            }
        }
        self.pos += data.len() as u64;
        self.len = self.len.max(self.pos);
        Ok(data.len())
    }
    fn flush(&mut self) -> io::Result<()> {
        Ok(())
    }
}

impl Seek for SparseStream {
    fn seek(&mut self, to: SeekFrom) -> io::Result<u64> {
        let np = seek_calc(self.pos, self.len, to)?;
        self.pos = np;
        Ok(np)
    }
}

impl Read for SparseStream {
    fn read(&mut self, buf: &mut [u8]) -> io::Result<usize> {
        let n = self.read_into(self.pos, buf);
        self.pos += n as u64;
        Ok(n)
    }
}

// ---------------------------------------------------------------------------------------
// Virtual tail: a real head followed by generated filler (reader-side > 4 GiB files for free)
// ---------------------------------------------------------------------------------------

/// Read + Seek over `head` followed by filler bytes up to `total` (byte at absolute position p
/// beyond the head is `fill_byte(seed, p)`).
pub struct VirtualTail {
    pub head: Rc<Vec<u8>>,
    pub total: u64,
    pub seed: u64,
    pub pos: u64,
}

impl VirtualTail {
    pub fn byte_at(&self, p: u64) -> u8 {
        if (p as usize) < self.head.len() && p < self.head.len() as u64 {
            self.head[p as usize]
        } else {
            fill_byte(self.seed, p)
        }
    }
}

impl Read for VirtualTail {
    fn read(&mut self, buf: &mut [u8]) -> io::Result<usize> {
        let avail = self.total.saturating_sub(self.pos);
        let n = (buf.len() as u64).min(avail) as usize;
        for (i, b) in buf[..n].iter_mut().enumerate() {
            *b = self.byte_at(self.pos + i as u64);
        }
        self.pos += n as u64;
        Ok(n)
    }
}

impl Seek for VirtualTail {
    fn seek(&mut self, to: SeekFrom) -> io::Result<u64> {
        let np = seek_calc(self.pos, self.total, to)?;
        self.pos = np;
        Ok(np)
    }
}
