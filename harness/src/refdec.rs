//! Independent ISO-BMFF decoder (trusted base, shares no code with the library).
//! Written from ISO/IEC 14496-12 / -14 / -15 / -1 / -3: a strict box-tree walker (children must
//! tile their parent exactly), typed decoders for the header boxes, the sample tables, sample
//! entries with their codec configuration, fragment boxes and the iTunes item list, and the
//! sample-table semantics (chunk map expansion, offsets, times).

use std::collections::BTreeMap;

/// Random access byte source (a Vec or the sparse > 4 GiB stream).
pub trait Src {
    fn len(&self) -> u64;
    fn read_at(&self, off: u64, n: usize) -> Vec<u8>;
}

impl Src for Vec<u8> {
    fn len(&self) -> u64 {
        (self as &Vec<u8>).len() as u64
    }
    fn read_at(&self, off: u64, n: usize) -> Vec<u8> {
        let s = off.min(self.len() as u64) as usize;
        let e = (s + n).min((self as &Vec<u8>).len());
        self[s..e].to_vec()
    }
}

impl Src for [u8] {
    fn len(&self) -> u64 {
        (self as &[u8]).len() as u64
    }
    fn read_at(&self, off: u64, n: usize) -> Vec<u8> {
        let s = off.min((self as &[u8]).len() as u64) as usize;
        let e = (s + n).min((self as &[u8]).len());
        self[s..e].to_vec()
    }
}

impl Src for crate::streams::SparseStream {
    fn len(&self) -> u64 {
        self.len
    }
    fn read_at(&self, off: u64, n: usize) -> Vec<u8> {
        let avail = self.len.saturating_sub(off).min(n as u64) as usize;
        self.read_range(off, avail)
    }
}

#[derive(Debug, Clone)]
pub struct Node {
    pub typ: [u8; 4],
    /// offset of the first header byte
    pub start: u64,
    /// header length: 8 or 16
    pub hdr: u64,
    /// total size including the header
    pub size: u64,
    /// size field was 0 (box extends to the end of its container)
    pub to_end: bool,
    pub children: Vec<Node>,
}

impl Node {
    pub fn end(&self) -> u64 {
        self.start + self.size
    }
    pub fn payload_start(&self) -> u64 {
        self.start + self.hdr
    }
    pub fn name(&self) -> String {
        String::from_utf8_lossy(&self.typ).to_string()
    }
    pub fn child(&self, t: &[u8; 4]) -> Option<&Node> {
        self.children.iter().find(|c| &c.typ == t)
    }
    pub fn all(&self, t: &[u8; 4]) -> Vec<&Node> {
        self.children.iter().filter(|c| &c.typ == t).collect()
    }
    pub fn payload<S: Src + ?Sized>(&self, s: &S) -> Vec<u8> {
        s.read_at(self.payload_start(), (self.size - self.hdr) as usize)
    }
}

fn be32(b: &[u8], o: usize) -> Result<u32, String> {
    if o + 4 > b.len() {
        return Err(format!("short read u32 at {} of {}", o, b.len()));
    }
    Ok(u32::from_be_bytes([b[o], b[o + 1], b[o + 2], b[o + 3]]))
}
fn be16(b: &[u8], o: usize) -> Result<u16, String> {
    if o + 2 > b.len() {
        return Err(format!("short read u16 at {} of {}", o, b.len()));
    }
    Ok(u16::from_be_bytes([b[o], b[o + 1]]))
}
fn be64(b: &[u8], o: usize) -> Result<u64, String> {
    if o + 8 > b.len() {
        return Err(format!("short read u64 at {} of {}", o, b.len()));
    }
    let mut x = [0u8; 8];
    x.copy_from_slice(&b[o..o + 8]);
    Ok(u64::from_be_bytes(x))
}

/// How the payload of a box type is organised, as far as child boxes are concerned.
/// Returns Some(offset of the first child inside the payload) for containers.
fn child_offset(typ: &[u8; 4], parent: Option<&[u8; 4]>) -> Option<u64> {
    match typ {
        b"moov" | b"trak" | b"mdia" | b"minf" | b"dinf" | b"stbl" | b"edts" | b"udta" | b"mvex"
        | b"moof" | b"traf" | b"ilst" => Some(0),
        b"meta" => Some(4),
        b"dref" | b"stsd" => Some(8),
        b"avc1" | b"hev1" | b"vp09" => Some(78),
        b"mp4a" => Some(28),
        // children of an item list are item boxes (any type) containing `data` boxes
        _ => {
            if parent == Some(b"ilst") {
                Some(0)
            } else {
                None
            }
        }
    }
}

/// Strictly parse the boxes that tile [start, end).
pub fn parse_range<S: Src + ?Sized>(
    s: &S,
    start: u64,
    end: u64,
    parent: Option<&[u8; 4]>,
    depth: u32,
) -> Result<Vec<Node>, String> {
    let mut out = Vec::new();
    let mut pos = start;
    if depth > 12 {
        return Err("nesting too deep".into());
    }
    while pos < end {
        if end - pos < 8 {
            return Err(format!(
                "{} trailing bytes at {} inside {:?} do not form a box header",
                end - pos,
                pos,
                parent.map(|p| String::from_utf8_lossy(p).to_string())
            ));
        }
        let h = s.read_at(pos, 16);
        let size32 = be32(&h, 0)?;
        let typ = [h[4], h[5], h[6], h[7]];
        let (hdr, size, to_end) = if size32 == 1 {
            if end - pos < 16 {
                return Err(format!("64-bit header at {} does not fit", pos));
            }
            let l = be64(&h, 8)?;
            if l < 16 {
                return Err(format!("largesize {} < 16 at {}", l, pos));
            }
            (16u64, l, false)
        } else if size32 == 0 {
            (8u64, end - pos, true)
        } else {
            if size32 < 8 {
                return Err(format!("box size {} < 8 at {}", size32, pos));
            }
            (8u64, size32 as u64, false)
        };
        if pos.checked_add(size).map(|e| e > end).unwrap_or(true) {
            return Err(format!(
                "box '{}' at {} with size {} overruns its container end {}",
                String::from_utf8_lossy(&typ),
                pos,
                size,
                end
            ));
        }
        let mut node = Node { typ, start: pos, hdr, size, to_end, children: Vec::new() };
        if let Some(co) = child_offset(&typ, parent) {
            let cs = pos + hdr + co;
            if cs > pos + size {
                return Err(format!("container '{}' at {} too small for its fixed part", node.name(), pos));
            }
            node.children = parse_range(s, cs, pos + size, Some(&typ), depth + 1)?;
        }
        out.push(node);
        pos += size;
    }
    Ok(out)
}

pub fn parse_file<S: Src + ?Sized>(s: &S) -> Result<Vec<Node>, String> {
    parse_range(s, 0, s.len(), None, 0)
}

// ---------------------------------------------------------------------------------------
// typed decoders
// ---------------------------------------------------------------------------------------

#[derive(Debug, Clone, Default, PartialEq, Eq)]
pub struct RMvhd {
    pub version: u8,
    pub flags: u32,
    pub creation: u64,
    pub modification: u64,
    pub timescale: u32,
    pub duration: u64,
    pub rate: u32,
    pub volume: u16,
    pub matrix: [i32; 9],
    pub next_track_id: u32,
}

pub fn dec_mvhd(p: &[u8]) -> Result<RMvhd, String> {
    let version = *p.first().ok_or("mvhd empty")?;
    let flags = be32(p, 0)? & 0xFF_FFFF;
    let mut o = 4;
    let (creation, modification, timescale, duration);
    match version {
        0 => {
            creation = be32(p, o)? as u64;
            modification = be32(p, o + 4)? as u64;
            timescale = be32(p, o + 8)?;
            duration = be32(p, o + 12)? as u64;
            o += 16;
        }
        1 => {
            creation = be64(p, o)?;
            modification = be64(p, o + 8)?;
            timescale = be32(p, o + 16)?;
            duration = be64(p, o + 20)?;
            o += 28;
        }
        v => return Err(format!("mvhd version {}", v)),
    }
    let rate = be32(p, o)?;
    let volume = be16(p, o + 4)?;
    o += 6 + 2 + 8;
    let mut matrix = [0i32; 9];
    for m in matrix.iter_mut() {
        *m = be32(p, o)? as i32;
        o += 4;
    }
    o += 24;
    let next_track_id = be32(p, o)?;
    o += 4;
    if o != p.len() {
        return Err(format!("mvhd payload {} bytes, layout needs {}", p.len(), o));
    }
    Ok(RMvhd { version, flags, creation, modification, timescale, duration, rate, volume, matrix, next_track_id })
}

#[derive(Debug, Clone, Default, PartialEq, Eq)]
pub struct RTkhd {
    pub version: u8,
    pub flags: u32,
    pub creation: u64,
    pub modification: u64,
    pub track_id: u32,
    pub duration: u64,
    pub layer: u16,
    pub alt_group: u16,
    pub volume: u16,
    pub matrix: [i32; 9],
    pub width: u32,
    pub height: u32,
}

pub fn dec_tkhd(p: &[u8]) -> Result<RTkhd, String> {
    let version = *p.first().ok_or("tkhd empty")?;
    let flags = be32(p, 0)? & 0xFF_FFFF;
    let mut o = 4;
    let (creation, modification, track_id, duration);
    match version {
        0 => {
            creation = be32(p, o)? as u64;
            modification = be32(p, o + 4)? as u64;
            track_id = be32(p, o + 8)?;
            duration = be32(p, o + 16)? as u64;
            o += 20;
        }
        1 => {
            creation = be64(p, o)?;
            modification = be64(p, o + 8)?;
            track_id = be32(p, o + 16)?;
            duration = be64(p, o + 24)?;
            o += 32;
        }
        v => return Err(format!("tkhd version {}", v)),
    }
    o += 8;
    let layer = be16(p, o)?;
    let alt_group = be16(p, o + 2)?;
    let volume = be16(p, o + 4)?;
    o += 8;
    let mut matrix = [0i32; 9];
    for m in matrix.iter_mut() {
        *m = be32(p, o)? as i32;
        o += 4;
    }
    let width = be32(p, o)?;
    let height = be32(p, o + 4)?;
    o += 8;
    if o != p.len() {
        return Err(format!("tkhd payload {} bytes, layout needs {}", p.len(), o));
    }
    Ok(RTkhd { version, flags, creation, modification, track_id, duration, layer, alt_group, volume, matrix, width, height })
}

#[derive(Debug, Clone, Default, PartialEq, Eq)]
pub struct RMdhd {
    pub version: u8,
    pub flags: u32,
    pub creation: u64,
    pub modification: u64,
    pub timescale: u32,
    pub duration: u64,
    pub lang: u16,
}

pub fn dec_mdhd(p: &[u8]) -> Result<RMdhd, String> {
    let version = *p.first().ok_or("mdhd empty")?;
    let flags = be32(p, 0)? & 0xFF_FFFF;
    let mut o = 4;
    let (creation, modification, timescale, duration);
    match version {
        0 => {
            creation = be32(p, o)? as u64;
            modification = be32(p, o + 4)? as u64;
            timescale = be32(p, o + 8)?;
            duration = be32(p, o + 12)? as u64;
            o += 16;
        }
        1 => {
            creation = be64(p, o)?;
            modification = be64(p, o + 8)?;
            timescale = be32(p, o + 16)?;
            duration = be64(p, o + 20)?;
            o += 28;
        }
        v => return Err(format!("mdhd version {}", v)),
    }
    let lang = be16(p, o)? & 0x7FFF;
    o += 4;
    if o != p.len() {
        return Err(format!("mdhd payload {} bytes, layout needs {}", p.len(), o));
    }
    Ok(RMdhd { version, flags, creation, modification, timescale, duration, lang })
}

pub fn lang_string(code: u16) -> String {
    let a = ((code >> 10) & 0x1F) as u8 + 0x60;
    let b = ((code >> 5) & 0x1F) as u8 + 0x60;
    let c = (code & 0x1F) as u8 + 0x60;
    String::from_utf8_lossy(&[a, b, c]).to_string()
}

#[derive(Debug, Clone, Default, PartialEq, Eq)]
pub struct RHdlr {
    pub handler: [u8; 4],
    pub name: Vec<u8>,
}

pub fn dec_hdlr(p: &[u8]) -> Result<RHdlr, String> {
    if p.len() < 24 {
        return Err("hdlr too short".into());
    }
    let handler = [p[8], p[9], p[10], p[11]];
    let rest = &p[24..];
    let name = match rest.iter().position(|b| *b == 0) {
        Some(e) => rest[..e].to_vec(),
        None => rest.to_vec(),
    };
    Ok(RHdlr { handler, name })
}

#[derive(Debug, Clone, Default, PartialEq, Eq)]
pub struct RAvcC {
    pub version: u8,
    pub profile: u8,
    pub compat: u8,
    pub level: u8,
    pub length_size_minus_one: u8,
    pub sps: Vec<Vec<u8>>,
    pub pps: Vec<Vec<u8>>,
}

pub fn dec_avcc(p: &[u8]) -> Result<RAvcC, String> {
    if p.len() < 7 {
        return Err("avcC too short".into());
    }
    let mut o = 6;
    let nsps = p[5] & 0x1F;
    let mut sps = Vec::new();
    for _ in 0..nsps {
        let l = be16(p, o)? as usize;
        o += 2;
        if o + l > p.len() {
            return Err("avcC sps overruns".into());
        }
        sps.push(p[o..o + l].to_vec());
        o += l;
    }
    let npps = *p.get(o).ok_or("avcC no pps count")?;
    o += 1;
    let mut pps = Vec::new();
    for _ in 0..npps {
        let l = be16(p, o)? as usize;
        o += 2;
        if o + l > p.len() {
            return Err("avcC pps overruns".into());
        }
        pps.push(p[o..o + l].to_vec());
        o += l;
    }
    Ok(RAvcC {
        version: p[0],
        profile: p[1],
        compat: p[2],
        level: p[3],
        length_size_minus_one: p[4] & 3,
        sps,
        pps,
    })
}

/// Decoded `esds` (ES_Descriptor -> DecoderConfigDescriptor -> DecoderSpecificInfo = AudioSpecificConfig).
#[derive(Debug, Clone, Default, PartialEq, Eq)]
pub struct REsds {
    pub es_id: u16,
    pub object_type: u8,
    pub stream_type: u8,
    pub up_stream: bool,
    pub buffer_size: u32,
    pub max_bitrate: u32,
    pub avg_bitrate: u32,
    pub asc: Vec<u8>,
    pub aot: u32,
    pub freq_index: u8,
    pub freq: Option<u32>,
    pub chan: u8,
    pub has_sl: bool,
}

fn read_desc_hdr(p: &[u8], o: &mut usize) -> Result<(u8, usize), String> {
    let tag = *p.get(*o).ok_or("descriptor tag missing")?;
    *o += 1;
    let mut len = 0usize;
    for _ in 0..4 {
        let b = *p.get(*o).ok_or("descriptor length missing")?;
        *o += 1;
        len = (len << 7) | (b & 0x7F) as usize;
        if b & 0x80 == 0 {
            break;
        }
    }
    Ok((tag, len))
}

pub struct BitReader<'a> {
    b: &'a [u8],
    pos: usize,
}
impl<'a> BitReader<'a> {
    pub fn new(b: &'a [u8]) -> Self {
        BitReader { b, pos: 0 }
    }
    pub fn get(&mut self, n: u32) -> Result<u32, String> {
        let mut v = 0u32;
        for _ in 0..n {
            let byte = *self.b.get(self.pos / 8).ok_or("bit reader ran out")?;
            let bit = (byte >> (7 - (self.pos % 8))) & 1;
            v = (v << 1) | bit as u32;
            self.pos += 1;
        }
        Ok(v)
    }
}

/// ISO/IEC 14496-3 1.6.2.1 AudioSpecificConfig prefix.
pub fn dec_asc(asc: &[u8]) -> Result<(u32, u8, Option<u32>, u8), String> {
    let mut br = BitReader::new(asc);
    let mut aot = br.get(5)?;
    if aot == 31 {
        aot = 32 + br.get(6)?;
    }
    let fi = br.get(4)? as u8;
    let mut freq = None;
    if fi == 15 {
        freq = Some(br.get(24)?);
    }
    let chan = br.get(4)? as u8;
    Ok((aot, fi, freq, chan))
}

pub fn dec_esds(p: &[u8]) -> Result<REsds, String> {
    // FullBox header
    let mut o = 4;
    let (tag, len) = read_desc_hdr(p, &mut o)?;
    if tag != 0x03 {
        return Err(format!("esds: expected ES_Descriptor tag 3, got {}", tag));
    }
    let es_end = o + len;
    if es_end > p.len() {
        return Err("esds: ES_Descriptor overruns box".into());
    }
    let mut r = REsds { es_id: be16(p, o)?, ..Default::default() };
    let flags = p[o + 2];
    o += 3;
    if flags & 0x80 != 0 {
        o += 2;
    }
    if flags & 0x40 != 0 {
        let l = p[o] as usize;
        o += 1 + l;
    }
    if flags & 0x20 != 0 {
        o += 2;
    }
    while o < es_end {
        let (tag, len) = read_desc_hdr(p, &mut o)?;
        let dend = o + len;
        if dend > es_end {
            return Err("esds: nested descriptor overruns".into());
        }
        match tag {
            0x04 => {
                r.object_type = p[o];
                r.stream_type = p[o + 1] >> 2;
                r.up_stream = p[o + 1] & 2 != 0;
                r.buffer_size = (be32(p, o + 1)?) & 0xFF_FFFF;
                r.max_bitrate = be32(p, o + 5)?;
                r.avg_bitrate = be32(p, o + 9)?;
                let mut q = o + 13;
                while q < dend {
                    let (t2, l2) = read_desc_hdr(p, &mut q)?;
                    if q + l2 > dend {
                        return Err("esds: DecoderSpecificInfo overruns".into());
                    }
                    if t2 == 0x05 {
                        r.asc = p[q..q + l2].to_vec();
                        let (aot, fi, fr, ch) = dec_asc(&r.asc)?;
                        r.aot = aot;
                        r.freq_index = fi;
                        r.freq = fr;
                        r.chan = ch;
                    }
                    q += l2;
                }
            }
            0x06 => {
                r.has_sl = true;
            }
            _ => {}
        }
        o = dend;
    }
    Ok(r)
}

#[derive(Debug, Clone, Default, PartialEq, Eq)]
pub struct RSampleEntry {
    pub format: [u8; 4],
    pub data_ref_index: u16,
    pub width: u16,
    pub height: u16,
    pub hres: u32,
    pub vres: u32,
    pub frame_count: u16,
    pub depth: u16,
    pub channelcount: u16,
    pub samplesize: u16,
    pub samplerate: u32,
    pub avcc: Option<RAvcC>,
    pub esds: Option<REsds>,
    pub has_hvcc: bool,
    pub has_vpcc: bool,
}

pub fn dec_sample_entry<S: Src + ?Sized>(s: &S, n: &Node) -> Result<RSampleEntry, String> {
    let p = n.payload(s);
    let mut e = RSampleEntry { format: n.typ, ..Default::default() };
    if p.len() < 8 {
        return Err("sample entry too short".into());
    }
    e.data_ref_index = be16(&p, 6)?;
    match &n.typ {
        b"avc1" | b"hev1" | b"vp09" => {
            e.width = be16(&p, 24)?;
            e.height = be16(&p, 26)?;
            e.hres = be32(&p, 28)?;
            e.vres = be32(&p, 32)?;
            e.frame_count = be16(&p, 40)?;
            e.depth = be16(&p, 74)?;
            if let Some(c) = n.child(b"avcC") {
                e.avcc = Some(dec_avcc(&c.payload(s))?);
            }
            e.has_hvcc = n.child(b"hvcC").is_some();
            e.has_vpcc = n.child(b"vpcC").is_some();
        }
        b"mp4a" => {
            e.channelcount = be16(&p, 16)?;
            e.samplesize = be16(&p, 18)?;
            e.samplerate = be32(&p, 24)?;
            if let Some(c) = n.child(b"esds") {
                e.esds = Some(dec_esds(&c.payload(s))?);
            }
        }
        _ => {}
    }
    Ok(e)
}

#[derive(Debug, Clone, Default)]
pub struct RStbl {
    pub entry: RSampleEntry,
    pub stsd_count: u32,
    pub stts: Vec<(u32, u32)>,
    pub ctts: Option<Vec<(u32, i32)>>,
    pub stss: Option<Vec<u32>>,
    pub stsc: Vec<(u32, u32, u32)>,
    pub stsz_size: u32,
    pub stsz_count: u32,
    pub stsz: Vec<u32>,
    pub chunk_offsets: Vec<u64>,
    pub is_co64: bool,
}

fn table_hdr(p: &[u8], entry: usize, name: &str) -> Result<usize, String> {
    let n = be32(p, 4)? as usize;
    if p.len() != 8 + n * entry {
        return Err(format!("{}: entry_count {} does not match payload {} bytes", name, n, p.len()));
    }
    Ok(n)
}

pub fn dec_stbl<S: Src + ?Sized>(s: &S, stbl: &Node) -> Result<RStbl, String> {
    let mut r = RStbl::default();
    let stsd = stbl.child(b"stsd").ok_or("no stsd")?;
    let sp = s.read_at(stsd.payload_start(), 8);
    r.stsd_count = be32(&sp, 4)?;
    if stsd.children.len() as u32 != r.stsd_count {
        return Err(format!("stsd entry_count {} but {} entries present", r.stsd_count, stsd.children.len()));
    }
    if let Some(e) = stsd.children.first() {
        r.entry = dec_sample_entry(s, e)?;
    }
    let p = stbl.child(b"stts").ok_or("no stts")?.payload(s);
    let n = table_hdr(&p, 8, "stts")?;
    for i in 0..n {
        r.stts.push((be32(&p, 8 + i * 8)?, be32(&p, 12 + i * 8)?));
    }
    if let Some(c) = stbl.child(b"ctts") {
        let p = c.payload(s);
        let n = table_hdr(&p, 8, "ctts")?;
        let mut v = Vec::new();
        for i in 0..n {
            v.push((be32(&p, 8 + i * 8)?, be32(&p, 12 + i * 8)? as i32));
        }
        r.ctts = Some(v);
    }
    if let Some(c) = stbl.child(b"stss") {
        let p = c.payload(s);
        let n = table_hdr(&p, 4, "stss")?;
        let mut v = Vec::new();
        for i in 0..n {
            v.push(be32(&p, 8 + i * 4)?);
        }
        r.stss = Some(v);
    }
    let p = stbl.child(b"stsc").ok_or("no stsc")?.payload(s);
    let n = table_hdr(&p, 12, "stsc")?;
    for i in 0..n {
        r.stsc.push((be32(&p, 8 + i * 12)?, be32(&p, 12 + i * 12)?, be32(&p, 16 + i * 12)?));
    }
    let p = stbl.child(b"stsz").ok_or("no stsz")?.payload(s);
    r.stsz_size = be32(&p, 4)?;
    r.stsz_count = be32(&p, 8)?;
    if r.stsz_size == 0 {
        if p.len() != 12 + 4 * r.stsz_count as usize {
            return Err(format!("stsz: sample_count {} does not match payload {}", r.stsz_count, p.len()));
        }
        for i in 0..r.stsz_count as usize {
            r.stsz.push(be32(&p, 12 + i * 4)?);
        }
    } else if p.len() != 12 {
        return Err(format!("stsz: constant size but payload {} bytes", p.len()));
    }
    match (stbl.child(b"stco"), stbl.child(b"co64")) {
        (Some(c), None) => {
            let p = c.payload(s);
            let n = table_hdr(&p, 4, "stco")?;
            for i in 0..n {
                r.chunk_offsets.push(be32(&p, 8 + i * 4)? as u64);
            }
        }
        (None, Some(c)) => {
            let p = c.payload(s);
            let n = table_hdr(&p, 8, "co64")?;
            for i in 0..n {
                r.chunk_offsets.push(be64(&p, 8 + i * 8)?);
            }
            r.is_co64 = true;
        }
        (Some(_), Some(_)) => return Err("both stco and co64 present".into()),
        (None, None) => return Err("neither stco nor co64".into()),
    }
    Ok(r)
}

#[derive(Debug, Clone, PartialEq, Eq)]
pub struct RSample {
    pub offset: u64,
    pub size: u32,
    pub start: u64,
    pub delta: u32,
    pub cts: i32,
    pub sync: bool,
    pub chunk: u32,
}

impl RStbl {
    pub fn sample_size(&self, k: usize) -> u32 {
        if self.stsz_size != 0 {
            self.stsz_size
        } else {
            self.stsz[k]
        }
    }

    /// Expand the tables into per-sample records following ISO/IEC 14496-12 8.6/8.7, checking
    /// mutual consistency on the way (each table must account for exactly stsz_count samples).
    pub fn samples(&self) -> Result<Vec<RSample>, String> {
        let n = self.stsz_count as usize;
        // time-to-sample
        let mut deltas = Vec::with_capacity(n);
        for (c, d) in &self.stts {
            for _ in 0..*c {
                deltas.push(*d);
                if deltas.len() > n {
                    return Err(format!("stts accounts for more than {} samples", n));
                }
            }
        }
        if deltas.len() != n {
            return Err(format!("stts accounts for {} samples, stsz has {}", deltas.len(), n));
        }
        let mut cts = vec![0i32; n];
        if let Some(ct) = &self.ctts {
            let mut k = 0usize;
            for (c, o) in ct {
                for _ in 0..*c {
                    if k >= n {
                        return Err(format!("ctts accounts for more than {} samples", n));
                    }
                    cts[k] = *o;
                    k += 1;
                }
            }
            if k != n {
                return Err(format!("ctts accounts for {} samples, stsz has {}", k, n));
            }
        }
        let mut sync = vec![self.stss.is_none(); n];
        if let Some(ss) = &self.stss {
            let mut prev = 0u32;
            for x in ss {
                if *x <= prev {
                    return Err(format!("stss not strictly increasing at {}", x));
                }
                if *x as usize > n {
                    return Err(format!("stss entry {} out of range 1..={}", x, n));
                }
                sync[*x as usize - 1] = true;
                prev = *x;
            }
        }
        // sample-to-chunk
        let nchunks = self.chunk_offsets.len() as u32;
        let mut out = Vec::with_capacity(n);
        let mut k = 0usize;
        let mut start = 0u64;
        if !self.stsc.is_empty() {
            if self.stsc[0].0 != 1 {
                return Err(format!("stsc first_chunk starts at {}", self.stsc[0].0));
            }
        }
        for (i, (first, spc, sdi)) in self.stsc.iter().enumerate() {
            if *spc == 0 {
                return Err("stsc samples_per_chunk 0".into());
            }
            if *sdi != 1 {
                return Err(format!("stsc sample_description_index {}", sdi));
            }
            let last = if i + 1 < self.stsc.len() {
                let nf = self.stsc[i + 1].0;
                if nf <= *first {
                    return Err("stsc first_chunk not strictly increasing".into());
                }
                nf - 1
            } else {
                nchunks
            };
            if last > nchunks {
                return Err(format!("stsc refers to chunk {} but only {} chunk offsets", last, nchunks));
            }
            for c in *first..=last {
                let mut off = self.chunk_offsets[c as usize - 1];
                for _ in 0..*spc {
                    if k >= n {
                        return Err(format!("stsc/chunk offsets account for more than {} samples", n));
                    }
                    let sz = self.sample_size(k);
                    out.push(RSample { offset: off, size: sz, start, delta: deltas[k], cts: cts[k], sync: sync[k], chunk: c });
                    off += sz as u64;
                    start += deltas[k] as u64;
                    k += 1;
                }
            }
        }
        if k != n {
            return Err(format!("stsc/chunk offsets account for {} samples, stsz has {}", k, n));
        }
        if self.stsc.is_empty() && nchunks != 0 {
            return Err("chunk offsets without stsc".into());
        }
        Ok(out)
    }
}

#[derive(Debug, Clone, Default)]
pub struct RTrack {
    pub tkhd: RTkhd,
    pub mdhd: RMdhd,
    pub hdlr: RHdlr,
    pub has_vmhd: bool,
    pub has_smhd: bool,
    pub stbl: RStbl,
    pub elst: Option<Vec<(u64, u64, u16, u16)>>,
}

#[derive(Debug, Clone, Default)]
pub struct RFtyp {
    pub major: [u8; 4],
    pub minor: u32,
    pub brands: Vec<[u8; 4]>,
}

#[derive(Debug, Clone, Default)]
pub struct RMovie {
    pub ftyp: RFtyp,
    pub mvhd: RMvhd,
    pub tracks: Vec<RTrack>,
    pub tags: BTreeMap<[u8; 4], (u32, Vec<u8>)>,
}

pub fn dec_ftyp(p: &[u8]) -> Result<RFtyp, String> {
    if p.len() < 8 || p.len() % 4 != 0 {
        return Err("ftyp size".into());
    }
    let mut f = RFtyp { major: [p[0], p[1], p[2], p[3]], minor: be32(p, 4)?, brands: vec![] };
    let mut o = 8;
    while o < p.len() {
        f.brands.push([p[o], p[o + 1], p[o + 2], p[o + 3]]);
        o += 4;
    }
    Ok(f)
}

pub fn dec_trak<S: Src + ?Sized>(s: &S, trak: &Node) -> Result<RTrack, String> {
    let mut t = RTrack::default();
    t.tkhd = dec_tkhd(&trak.child(b"tkhd").ok_or("no tkhd")?.payload(s))?;
    let mdia = trak.child(b"mdia").ok_or("no mdia")?;
    t.mdhd = dec_mdhd(&mdia.child(b"mdhd").ok_or("no mdhd")?.payload(s))?;
    t.hdlr = dec_hdlr(&mdia.child(b"hdlr").ok_or("no hdlr")?.payload(s))?;
    let minf = mdia.child(b"minf").ok_or("no minf")?;
    t.has_vmhd = minf.child(b"vmhd").is_some();
    t.has_smhd = minf.child(b"smhd").is_some();
    let dinf = minf.child(b"dinf").ok_or("no dinf")?;
    let dref = dinf.child(b"dref").ok_or("no dref")?;
    let dp = s.read_at(dref.payload_start(), 8);
    let n = be32(&dp, 4)?;
    if n as usize != dref.children.len() {
        return Err(format!("dref entry_count {} but {} entries", n, dref.children.len()));
    }
    t.stbl = dec_stbl(s, minf.child(b"stbl").ok_or("no stbl")?)?;
    if let Some(e) = trak.child(b"edts").and_then(|e| e.child(b"elst")) {
        let p = e.payload(s);
        let v = p[0];
        let n = be32(&p, 4)? as usize;
        let mut out = Vec::new();
        let mut o = 8;
        for _ in 0..n {
            if v == 1 {
                out.push((be64(&p, o)?, be64(&p, o + 8)?, be16(&p, o + 16)?, be16(&p, o + 18)?));
                o += 20;
            } else {
                out.push((be32(&p, o)? as u64, be32(&p, o + 4)? as u64, be16(&p, o + 8)?, be16(&p, o + 10)?));
                o += 12;
            }
        }
        t.elst = Some(out);
    }
    Ok(t)
}

/// Decode the movie header side of a file from its parsed top-level boxes.
pub fn dec_movie<S: Src + ?Sized>(s: &S, top: &[Node]) -> Result<RMovie, String> {
    let mut m = RMovie::default();
    let ftyp = top.iter().find(|n| &n.typ == b"ftyp").ok_or("no ftyp")?;
    m.ftyp = dec_ftyp(&ftyp.payload(s))?;
    let moov = top.iter().find(|n| &n.typ == b"moov").ok_or("no moov")?;
    m.mvhd = dec_mvhd(&moov.child(b"mvhd").ok_or("no mvhd")?.payload(s))?;
    for t in moov.all(b"trak") {
        m.tracks.push(dec_trak(s, t)?);
    }
    if let Some(ilst) = moov.child(b"udta").and_then(|u| u.child(b"meta")).and_then(|m| m.child(b"ilst")) {
        for item in &ilst.children {
            if let Some(d) = item.child(b"data") {
                let p = d.payload(s);
                if p.len() >= 8 {
                    m.tags.insert(item.typ, (be32(&p, 0)?, p[8..].to_vec()));
                }
            }
        }
    }
    Ok(m)
}

/// Check that every container's size equals header + children (already enforced by
/// `parse_range`) and return the number of containers and boxes seen.
pub fn count_boxes(nodes: &[Node]) -> (u64, u64) {
    let mut c = 0;
    let mut b = 0;
    for n in nodes {
        b += 1;
        if !n.children.is_empty() {
            c += 1;
        }
        let (cc, bb) = count_boxes(&n.children);
        c += cc;
        b += bb;
    }
    (c, b)
}
