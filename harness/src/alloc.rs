//! Counting global allocator (feature `track-alloc`): live / peak / largest request / total
//! bytes, measured between `begin()` and `end()`. Worker processes are single-threaded, so
//! plain atomics suffice and the monitor's own state cannot race with what it shadows.

use std::alloc::{GlobalAlloc, Layout, System};
use std::sync::atomic::{AtomicBool, AtomicU64, Ordering::Relaxed};

pub struct Counting;

static LIVE: AtomicU64 = AtomicU64::new(0);
static PEAK: AtomicU64 = AtomicU64::new(0);
static MAXREQ: AtomicU64 = AtomicU64::new(0);
static TOTAL: AtomicU64 = AtomicU64::new(0);
static NALLOC: AtomicU64 = AtomicU64::new(0);
static ARMED: AtomicBool = AtomicBool::new(false);
/// Requests above this many bytes are refused (null) while armed, after being recorded
/// on stderr: the process then aborts and the driver attributes the death to the open case.
static REFUSE_ABOVE: AtomicU64 = AtomicU64::new(u64::MAX);

#[inline]
fn on_alloc(size: u64) {
    let live = LIVE.fetch_add(size, Relaxed) + size;
    if ARMED.load(Relaxed) {
        TOTAL.fetch_add(size, Relaxed);
        NALLOC.fetch_add(1, Relaxed);
        if size > MAXREQ.load(Relaxed) {
            MAXREQ.store(size, Relaxed);
        }
        if live > PEAK.load(Relaxed) {
            PEAK.store(live, Relaxed);
        }
    }
}

unsafe impl GlobalAlloc for Counting {
    unsafe fn alloc(&self, l: Layout) -> *mut u8 {
        let size = l.size() as u64;
        if ARMED.load(Relaxed) && size > REFUSE_ABOVE.load(Relaxed) {
            MAXREQ.store(size, Relaxed);
            refuse(size);
            return std::ptr::null_mut();
        }
        let p = System.alloc(l);
        if !p.is_null() {
            on_alloc(size);
        }
        p
    }
    unsafe fn alloc_zeroed(&self, l: Layout) -> *mut u8 {
        let size = l.size() as u64;
        if ARMED.load(Relaxed) && size > REFUSE_ABOVE.load(Relaxed) {
            MAXREQ.store(size, Relaxed);
            refuse(size);
            return std::ptr::null_mut();
        }
        let p = System.alloc_zeroed(l);
        if !p.is_null() {
            on_alloc(size);
        }
        p
    }
    unsafe fn dealloc(&self, p: *mut u8, l: Layout) {
        LIVE.fetch_sub(l.size() as u64, Relaxed);
        System.dealloc(p, l)
    }
    unsafe fn realloc(&self, p: *mut u8, l: Layout, new_size: usize) -> *mut u8 {
        if ARMED.load(Relaxed) && new_size as u64 > REFUSE_ABOVE.load(Relaxed) {
            MAXREQ.store(new_size as u64, Relaxed);
            refuse(new_size as u64);
            return std::ptr::null_mut();
        }
        let q = System.realloc(p, l, new_size);
        if !q.is_null() {
            LIVE.fetch_sub(l.size() as u64, Relaxed);
            on_alloc(new_size as u64);
        }
        q
    }
}

fn refuse(size: u64) {
    // async-signal-safe-ish: a single write(2) of a preformatted buffer
    let mut buf = [0u8; 64];
    let msg = b"VERIF-ALLOC-REFUSED ";
    buf[..msg.len()].copy_from_slice(msg);
    let mut n = msg.len();
    let mut digits = [0u8; 20];
    let mut d = 0;
    let mut v = size;
    if v == 0 {
        digits[0] = b'0';
        d = 1;
    }
    while v > 0 {
        digits[d] = b'0' + (v % 10) as u8;
        v /= 10;
        d += 1;
    }
    for i in (0..d).rev() {
        buf[n] = digits[i];
        n += 1;
    }
    buf[n] = b'\n';
    n += 1;
    extern "C" {
        fn write(fd: i32, buf: *const u8, n: usize) -> isize;
    }
    unsafe {
        write(2, buf.as_ptr(), n);
    }
}

#[derive(Debug, Clone, Copy, Default)]
pub struct Usage {
    /// peak live bytes above the live bytes at `begin()`
    pub peak: u64,
    pub max_req: u64,
    pub total: u64,
    pub count: u64,
}

static BASE: AtomicU64 = AtomicU64::new(0);

pub fn enabled() -> bool {
    cfg!(feature = "track-alloc")
}

pub fn set_refuse_above(n: u64) {
    REFUSE_ABOVE.store(n, Relaxed);
}

pub fn begin() {
    let live = LIVE.load(Relaxed);
    BASE.store(live, Relaxed);
    PEAK.store(live, Relaxed);
    MAXREQ.store(0, Relaxed);
    TOTAL.store(0, Relaxed);
    NALLOC.store(0, Relaxed);
    ARMED.store(true, Relaxed);
}

pub fn end() -> Usage {
    ARMED.store(false, Relaxed);
    Usage {
        peak: PEAK.load(Relaxed).saturating_sub(BASE.load(Relaxed)),
        max_req: MAXREQ.load(Relaxed),
        total: TOTAL.load(Relaxed),
        count: NALLOC.load(Relaxed),
    }
}
