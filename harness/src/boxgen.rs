//! Per-box generators: from one abstract field list both the library value and the reference
//! box (refenc) are derived, over the shape space of each box type (C04, C05).

use crate::prng::Rng;
use crate::refenc::*;
use crate::streams::MonReader;
use mp4::verif_export::*;
use mp4::*;
use std::collections::HashMap;

pub trait BoxIO: Sized + PartialEq + std::fmt::Debug {
    fn enc(&self, w: &mut Vec<u8>) -> mp4::Result<u64>;
    fn dec(r: &mut MonReader, size: u64) -> mp4::Result<Self>;
    fn bsize(&self) -> u64;
    fn btype(&self) -> BoxType;
    fn json(&self) -> mp4::Result<String>;
    fn summ(&self) -> mp4::Result<String>;
}

macro_rules! boxio {
    ($($t:ty),*) => { $(
        impl BoxIO for $t {
            fn enc(&self, w: &mut Vec<u8>) -> mp4::Result<u64> { self.write_box(w) }
            fn dec(r: &mut MonReader, size: u64) -> mp4::Result<Self> { <$t>::read_box(r, size) }
            fn bsize(&self) -> u64 { self.box_size() }
            fn btype(&self) -> BoxType { self.box_type() }
            fn json(&self) -> mp4::Result<String> { Mp4Box::to_json(self) }
            fn summ(&self) -> mp4::Result<String> { Mp4Box::summary(self) }
        }
    )* }
}

boxio!(
    FtypBox, MvhdBox, TkhdBox, MdhdBox, HdlrBox, VmhdBox, SmhdBox, DinfBox, DrefBox, UrlBox, StsdBox, Avc1Box, AvcCBox, Hev1Box, HvcCBox, Vp09Box, VpccBox,
    Mp4aBox, EsdsBox, Tx3gBox, SttsBox, CttsBox, StssBox, StscBox, StszBox, StcoBox, Co64Box, StblBox, MinfBox, MdiaBox, TrakBox, MoovBox, EdtsBox, ElstBox,
    MvexBox, MehdBox, TrexBox, MoofBox, MfhdBox, TrafBox, TfhdBox, TfdtBox, TrunBox, EmsgBox, UdtaBox, MetaBox, IlstBox, DataBox
);

pub struct Case<B> {
    pub shape: String,
    pub value: B,
    pub refbox: BoxT,
    pub nontrivial: bool,
}

fn fcc(b: [u8; 4]) -> FourCC {
    FourCC::from(b)
}

fn rnd4(rng: &mut Rng) -> [u8; 4] {
    let b = rng.bytes(4);
    [b[0], b[1], b[2], b[3]]
}

/// list lengths explored for every list-valued field
pub const LENS: [usize; 5] = [0, 1, 2, 3, 17];

thread_local! {
    static SCALE: std::cell::Cell<bool> = std::cell::Cell::new(false);
}

/// Scale mode (one draw in thirty-two, set by the driver): the larger list-length classes become
/// long lists and variable payloads become large, so that thresholds that arise from type
/// widths (u8 / u16 counters and sums) and from batch / buffer sizes (1 KiB, 4 KiB, 8 KiB) are crossed.
pub fn set_scale(on: bool) {
    SCALE.with(|s| s.set(on));
}

pub fn scale() -> bool {
    SCALE.with(|s| s.get())
}

/// list length for length class `k` (index into LENS)
fn lens(rng: &mut Rng, k: usize) -> usize {
    let n = LENS[k];
    if scale() && n >= 3 {
        *rng.pick(&[85usize, 86, 100, 257, 341, 342, 343, 1025, 4097])
    } else {
        n
    }
}

fn matrix(rng: &mut Rng) -> ([i32; 9], Matrix) {
    let m: [i32; 9] = if rng.bool() { UNITY } else { [rng.biased_i32(), rng.biased_i32(), rng.biased_i32(), rng.biased_i32(), rng.biased_i32(), rng.biased_i32(), rng.biased_i32(), rng.biased_i32(), rng.biased_i32()] };
    (m, Matrix { a: m[0], b: m[1], u: m[2], c: m[3], d: m[4], v: m[5], x: m[6], y: m[7], w: m[8] })
}

fn vtime(rng: &mut Rng, version: u8) -> u64 {
    if version == 1 {
        rng.biased(64)
    } else {
        rng.biased(32)
    }
}

pub fn gen_ftyp(rng: &mut Rng, shape: usize) -> Case<FtypBox> {
    let n = lens(rng, shape % 5);
    let f = FtypF { major: rnd4(rng), minor: rng.biased_u32(), brands: (0..n).map(|_| rnd4(rng)).collect() };
    Case {
        shape: format!("ftyp brands{}", n),
        value: FtypBox { major_brand: fcc(f.major), minor_version: f.minor, compatible_brands: f.brands.iter().map(|b| fcc(*b)).collect() },
        refbox: enc_ftyp(&f),
        nontrivial: n > 0,
    }
}

pub fn gen_mvhd(rng: &mut Rng, shape: usize) -> Case<MvhdBox> {
    let version = (shape % 2) as u8;
    let (m, lm) = matrix(rng);
    let f = MvhdF { version, flags: rng.biased(24) as u32, creation: vtime(rng, version), modification: vtime(rng, version), timescale: rng.biased_u32(), duration: vtime(rng, version), rate: rng.biased_u32(), volume: rng.biased_u16(), matrix: m, next_track_id: rng.biased_u32() };
    Case {
        shape: format!("mvhd v{}", version),
        value: MvhdBox { version, flags: f.flags, creation_time: f.creation, modification_time: f.modification, timescale: f.timescale, duration: f.duration, rate: FixedPointU16::new_raw(f.rate), volume: FixedPointU8::new_raw(f.volume), matrix: lm, next_track_id: f.next_track_id },
        refbox: enc_mvhd(&f),
        nontrivial: true,
    }
}

pub fn gen_tkhd(rng: &mut Rng, shape: usize) -> Case<TkhdBox> {
    let version = (shape % 2) as u8;
    let (m, lm) = matrix(rng);
    let f = TkhdF { version, flags: rng.biased(24) as u32, creation: vtime(rng, version), modification: vtime(rng, version), track_id: rng.biased_u32(), duration: vtime(rng, version), layer: rng.biased_u16(), alt_group: rng.biased_u16(), volume: rng.biased_u16(), matrix: m, width: rng.biased_u32(), height: rng.biased_u32() };
    Case {
        shape: format!("tkhd v{}", version),
        value: TkhdBox { version, flags: f.flags, creation_time: f.creation, modification_time: f.modification, track_id: f.track_id, duration: f.duration, layer: f.layer, alternate_group: f.alt_group, volume: FixedPointU8::new_raw(f.volume), matrix: lm, width: FixedPointU16::new_raw(f.width), height: FixedPointU16::new_raw(f.height) },
        refbox: enc_tkhd(&f),
        nontrivial: true,
    }
}

pub fn gen_lang(rng: &mut Rng) -> [u8; 3] {
    [b'a' + rng.below(26) as u8, b'a' + rng.below(26) as u8, b'a' + rng.below(26) as u8]
}

pub fn gen_mdhd(rng: &mut Rng, shape: usize) -> Case<MdhdBox> {
    let version = (shape % 2) as u8;
    let f = MdhdF { version, flags: rng.biased(24) as u32, creation: vtime(rng, version), modification: vtime(rng, version), timescale: rng.biased_u32(), duration: vtime(rng, version), lang: gen_lang(rng) };
    Case {
        shape: format!("mdhd v{}", version),
        value: MdhdBox { version, flags: f.flags, creation_time: f.creation, modification_time: f.modification, timescale: f.timescale, duration: f.duration, language: String::from_utf8(f.lang.to_vec()).unwrap() },
        refbox: enc_mdhd(&f),
        nontrivial: true,
    }
}

fn gen_name(rng: &mut Rng, n: usize) -> String {
    let alphabet = ["a", "Z", " ", "\u{e9}", "\u{65e5}", "0", "/", "."];
    let mut s = String::new();
    while s.len() < n {
        s.push_str(alphabet[rng.usize_below(alphabet.len())]);
    }
    while s.len() > n {
        s.pop();
    }
    s
}

/// A conforming NUL-terminated name that LOOKS like a QuickTime counted (Pascal) string: its
/// first byte equals the number of bytes that follow it. ISO files are free to contain such a
/// name; a reader that special-cases counted strings must still return it unchanged. The
/// first character is ASCII, or a two-byte character (first byte 0xC2..=0xDF).
pub fn counted_looking_name(rng: &mut Rng) -> String {
    let mut s = String::new();
    let rest = if rng.bool() {
        let c = *rng.pick(&[b'!', b'0', b'A', b'a', b'~', b' ']);
        s.push(c as char);
        c as usize
    } else {
        // U+00C0..U+07FF encode as two bytes, the first of which is 0xC3..=0xDF
        let first = 0xC3 + rng.below(0x1D) as u32;
        let ch = char::from_u32(((first & 0x1F) << 6) | (0x80 + rng.below(0x40) as u32 & 0x3F)).unwrap_or('\u{e9}');
        s.push(ch);
        first as usize
    };
    // `rest` more bytes after the first byte - or one fewer: the two conventions a reader might
    // apply (count = bytes that follow / count = length of the whole name)
    let rest = if rng.bool() { rest } else { rest - 1 };
    let already = s.len() - 1;
    for _ in 0..rest.saturating_sub(already) {
        s.push(*rng.pick(&['n', 'a', 'M', 'e', ' ', '7']));
    }
    s
}

pub fn gen_hdlr(rng: &mut Rng, shape: usize) -> Case<HdlrBox> {
    let n = [0usize, 1, 5, 31, 300][shape % 5];
    let mut name = gen_name(rng, n);
    if n >= 31 && rng.chance(1, 3) {
        name = counted_looking_name(rng);
    }
    let f = HdlrF { version: rng.biased_u8(), flags: rng.biased(24) as u32, handler: rnd4(rng), name: name.as_bytes().to_vec() };
    Case {
        shape: format!("hdlr name{}", name.len().min(32)),
        value: HdlrBox { version: f.version, flags: f.flags, handler_type: fcc(f.handler), name },
        refbox: enc_hdlr(&f),
        nontrivial: n > 0,
    }
}

pub fn gen_vmhd(rng: &mut Rng, _shape: usize) -> Case<VmhdBox> {
    let (v, fl, g, c) = (rng.biased_u8(), rng.biased(24) as u32, rng.biased_u16(), [rng.biased_u16(), rng.biased_u16(), rng.biased_u16()]);
    Case { shape: "vmhd".into(), value: VmhdBox { version: v, flags: fl, graphics_mode: g, op_color: RgbColor { red: c[0], green: c[1], blue: c[2] } }, refbox: enc_vmhd(v, fl, g, c), nontrivial: true }
}

pub fn gen_smhd(rng: &mut Rng, _shape: usize) -> Case<SmhdBox> {
    let (v, fl, b) = (rng.biased_u8(), rng.biased(24) as u32, rng.biased_i16());
    Case { shape: "smhd".into(), value: SmhdBox { version: v, flags: fl, balance: FixedPointI8::new_raw(b) }, refbox: enc_smhd(v, fl, b), nontrivial: true }
}

pub fn gen_url(rng: &mut Rng, shape: usize) -> Case<UrlBox> {
    let n = [0usize, 1, 20, 200][shape % 4];
    let loc = gen_name(rng, n);
    let (v, fl) = (rng.biased_u8(), rng.biased(24) as u32);
    Case { shape: format!("url loc{}", loc.len().min(21)), value: UrlBox { version: v, flags: fl, location: loc.clone() }, refbox: enc_url(v, fl, loc.as_bytes()), nontrivial: n > 0 }
}

pub fn gen_dref(rng: &mut Rng, shape: usize) -> Case<DrefBox> {
    let (v, fl) = (rng.biased_u8(), rng.biased(24) as u32);
    if shape % 3 == 0 {
        Case { shape: "dref empty".into(), value: DrefBox { version: v, flags: fl, url: None }, refbox: enc_dref(v, fl, vec![]), nontrivial: false }
    } else {
        let u = gen_url(rng, shape / 3);
        Case { shape: format!("dref[{}]", u.shape), value: DrefBox { version: v, flags: fl, url: Some(u.value) }, refbox: enc_dref(v, fl, vec![u.refbox]), nontrivial: true }
    }
}

pub fn gen_dinf(rng: &mut Rng, shape: usize) -> Case<DinfBox> {
    let d = gen_dref(rng, shape);
    Case { shape: format!("dinf[{}]", d.shape), value: DinfBox::verif_with_dref(d.value), refbox: BoxT::container(b"dinf", vec![d.refbox]), nontrivial: d.nontrivial }
}

macro_rules! table_gen {
    ($fname:ident, $lib:ident, $name:expr, $mk_entry:expr, $to_lib:expr, $enc:ident) => {
        pub fn $fname(rng: &mut Rng, shape: usize) -> Case<$lib> {
            let n = lens(rng, shape % 5);
            let (v, fl) = (rng.biased_u8(), rng.biased(24) as u32);
            let e: Vec<_> = (0..n).map(|_| $mk_entry(rng)).collect();
            Case { shape: format!("{} n{}", $name, n), value: $lib { version: v, flags: fl, entries: e.iter().map($to_lib).collect() }, refbox: $enc(v, fl, &e), nontrivial: n > 0 }
        }
    };
}

table_gen!(gen_stts, SttsBox, "stts", |r: &mut Rng| (r.biased_u32(), r.biased_u32()), |e: &(u32, u32)| SttsEntry { sample_count: e.0, sample_delta: e.1 }, enc_stts);
table_gen!(gen_ctts, CttsBox, "ctts", |r: &mut Rng| (r.biased_u32(), r.biased_i32()), |e: &(u32, i32)| CttsEntry { sample_count: e.0, sample_offset: e.1 }, enc_ctts);
table_gen!(gen_stss, StssBox, "stss", |r: &mut Rng| r.biased_u32(), |e: &u32| *e, enc_stss);
table_gen!(gen_stco, StcoBox, "stco", |r: &mut Rng| r.biased_u32(), |e: &u32| *e, enc_stco);
table_gen!(gen_co64, Co64Box, "co64", |r: &mut Rng| r.biased(64), |e: &u64| *e, enc_co64);

pub fn gen_stsc(rng: &mut Rng, shape: usize) -> Case<StscBox> {
    let n = lens(rng, shape % 5);
    let (v, fl) = (rng.biased_u8(), rng.biased(24) as u32);
    // entries with increasing first_chunk and small counts so that the derived first_sample
    // (which the struct stores) is well defined
    let mut e = Vec::new();
    let mut fc = 1u32;
    for _ in 0..n {
        e.push((fc, 1 + rng.below(50) as u32, rng.biased_u32()));
        fc += 1 + rng.below(40) as u32;
    }
    let mut entries = Vec::new();
    let mut sample = 1u32;
    for (i, x) in e.iter().enumerate() {
        entries.push(StscEntry { first_chunk: x.0, samples_per_chunk: x.1, sample_description_index: x.2, first_sample: sample });
        if i + 1 < e.len() {
            sample += (e[i + 1].0 - x.0) * x.1;
        }
    }
    Case { shape: format!("stsc n{}", n), value: StscBox { version: v, flags: fl, entries }, refbox: enc_stsc(v, fl, &e), nontrivial: n > 0 }
}

pub fn gen_stsz(rng: &mut Rng, shape: usize) -> Case<StszBox> {
    let (v, fl) = (rng.biased_u8(), rng.biased(24) as u32);
    if shape % 6 == 5 {
        let (sz, cnt) = (1 + rng.biased_u32() % (u32::MAX - 1), rng.biased_u32());
        Case { shape: "stsz fixed".into(), value: StszBox { version: v, flags: fl, sample_size: sz, sample_count: cnt, sample_sizes: vec![] }, refbox: enc_stsz(v, fl, sz, cnt, &[]), nontrivial: true }
    } else {
        let n = lens(rng, shape % 5);
        let sizes: Vec<u32> = (0..n).map(|_| rng.biased_u32()).collect();
        Case { shape: format!("stsz table n{}", n), value: StszBox { version: v, flags: fl, sample_size: 0, sample_count: n as u32, sample_sizes: sizes.clone() }, refbox: enc_stsz(v, fl, 0, n as u32, &sizes), nontrivial: n > 0 }
    }
}

pub fn gen_elst(rng: &mut Rng, shape: usize) -> Case<ElstBox> {
    let version = (shape % 2) as u8;
    let n = lens(rng, (shape / 2) % 5);
    let fl = rng.biased(24) as u32;
    let e: Vec<ElstEntryF> = (0..n).map(|_| ElstEntryF { segment_duration: vtime(rng, version), media_time: vtime(rng, version), rate_int: rng.biased_u16(), rate_frac: rng.biased_u16() }).collect();
    Case {
        shape: format!("elst v{} n{}", version, n),
        value: ElstBox { version, flags: fl, entries: e.iter().map(|x| ElstEntry { segment_duration: x.segment_duration, media_time: x.media_time, media_rate: x.rate_int, media_rate_fraction: x.rate_frac }).collect() },
        refbox: enc_elst(version, fl, &e),
        nontrivial: n > 0,
    }
}

pub fn gen_edts(rng: &mut Rng, shape: usize) -> Case<EdtsBox> {
    let e = gen_elst(rng, shape);
    Case { shape: format!("edts[{}]", e.shape), value: EdtsBox { elst: Some(e.value) }, refbox: BoxT::container(b"edts", vec![e.refbox]), nontrivial: true }
}

pub fn gen_mehd(rng: &mut Rng, shape: usize) -> Case<MehdBox> {
    let version = (shape % 2) as u8;
    let (fl, d) = (rng.biased(24) as u32, vtime(rng, version));
    Case { shape: format!("mehd v{}", version), value: MehdBox { version, flags: fl, fragment_duration: d }, refbox: enc_mehd(version, fl, d), nontrivial: true }
}

pub fn gen_trex(rng: &mut Rng, _shape: usize) -> Case<TrexBox> {
    let f = TrexF { version: rng.biased_u8(), flags: rng.biased(24) as u32, track_id: rng.biased_u32(), desc_index: rng.biased_u32(), duration: rng.biased_u32(), size: rng.biased_u32(), sflags: rng.biased_u32() };
    Case {
        shape: "trex".into(),
        value: TrexBox { version: f.version, flags: f.flags, track_id: f.track_id, default_sample_description_index: f.desc_index, default_sample_duration: f.duration, default_sample_size: f.size, default_sample_flags: f.sflags },
        refbox: enc_trex(&f),
        nontrivial: true,
    }
}

pub fn gen_mvex(rng: &mut Rng, shape: usize) -> Case<MvexBox> {
    let t = gen_trex(rng, 0);
    if shape % 3 == 0 {
        Case { shape: "mvex[trex]".into(), value: MvexBox { mehd: None, trex: t.value }, refbox: BoxT::container(b"mvex", vec![t.refbox]), nontrivial: true }
    } else {
        let m = gen_mehd(rng, shape);
        Case { shape: format!("mvex[{},trex]", m.shape), value: MvexBox { mehd: Some(m.value), trex: t.value }, refbox: BoxT::container(b"mvex", vec![m.refbox, t.refbox]), nontrivial: true }
    }
}

pub fn gen_mfhd(rng: &mut Rng, _shape: usize) -> Case<MfhdBox> {
    let (v, fl, s) = (rng.biased_u8(), rng.biased(24) as u32, rng.biased_u32());
    Case { shape: "mfhd".into(), value: MfhdBox { version: v, flags: fl, sequence_number: s }, refbox: enc_mfhd(v, fl, s), nontrivial: true }
}

pub fn gen_tfdt(rng: &mut Rng, shape: usize) -> Case<TfdtBox> {
    let version = (shape % 2) as u8;
    let (fl, t) = (rng.biased(24) as u32, vtime(rng, version));
    Case { shape: format!("tfdt v{}", version), value: TfdtBox { version, flags: fl, base_media_decode_time: t }, refbox: enc_tfdt(version, fl, t), nontrivial: true }
}

/// all 2^5 optional-field combinations (x duration-is-empty / default-base-is-moof bits)
pub fn gen_tfhd(rng: &mut Rng, shape: usize) -> Case<TfhdBox> {
    let bits = shape % 32;
    let extra = match (shape / 32) % 4 {
        0 => 0,
        1 => 0x010000,
        2 => 0x020000,
        _ => 0x030000,
    };
    let f = TfhdF {
        version: rng.biased_u8(),
        extra_flags: extra,
        track_id: rng.biased_u32(),
        base_data_offset: if bits & 1 != 0 { Some(rng.biased(64)) } else { None },
        desc_index: if bits & 2 != 0 { Some(rng.biased_u32()) } else { None },
        default_duration: if bits & 4 != 0 { Some(rng.biased_u32()) } else { None },
        default_size: if bits & 8 != 0 { Some(rng.biased_u32()) } else { None },
        default_flags: if bits & 16 != 0 { Some(rng.biased_u32()) } else { None },
    };
    Case {
        shape: format!("tfhd bits{:05b} x{:x}", bits, extra >> 16),
        value: TfhdBox { version: f.version, flags: f.flags(), track_id: f.track_id, base_data_offset: f.base_data_offset, sample_description_index: f.desc_index, default_sample_duration: f.default_duration, default_sample_size: f.default_size, default_sample_flags: f.default_flags },
        refbox: enc_tfhd(&f),
        nontrivial: bits != 0,
    }
}

/// all 2^6 flag combinations x list lengths
pub fn gen_trun(rng: &mut Rng, shape: usize) -> Case<TrunBox> {
    let bits = shape % 64;
    let n = lens(rng, (shape / 64) % 5);
    let mk = |on: bool, rng: &mut Rng| -> Option<Vec<u32>> { if on { Some((0..n).map(|_| rng.biased_u32()).collect()) } else { None } };
    let f = TrunF {
        version: (bits & 1) as u8,
        extra_flags: 0,
        count: n as u32,
        data_offset: if bits & 2 != 0 { Some(rng.biased_i32()) } else { None },
        first_sample_flags: if bits & 4 != 0 { Some(rng.biased_u32()) } else { None },
        durations: mk(bits & 8 != 0, rng),
        sizes: mk(bits & 16 != 0, rng),
        sflags: mk(bits & 32 != 0, rng),
        cts: mk((shape / 320) % 2 == 1, rng),
    };
    Case {
        shape: format!("trun bits{:06b} cts{} n{}", bits, f.cts.is_some() as u8, n),
        value: TrunBox {
            version: f.version,
            flags: f.flags(),
            sample_count: f.count,
            data_offset: f.data_offset,
            first_sample_flags: f.first_sample_flags,
            sample_durations: f.durations.clone().unwrap_or_default(),
            sample_sizes: f.sizes.clone().unwrap_or_default(),
            sample_flags: f.sflags.clone().unwrap_or_default(),
            sample_cts: f.cts.clone().unwrap_or_default(),
        },
        refbox: enc_trun(&f),
        nontrivial: n > 0,
    }
}

pub fn gen_traf(rng: &mut Rng, shape: usize) -> Case<TrafBox> {
    let h = gen_tfhd(rng, shape);
    let with_tfdt = shape % 2 == 0;
    let with_trun = (shape / 2) % 3 != 0;
    let mut kids = vec![h.refbox];
    let mut sh = format!("traf[{}", h.shape);
    let tfdt = if with_tfdt {
        let t = gen_tfdt(rng, shape / 6);
        kids.push(t.refbox);
        sh.push_str(&format!(",{}", t.shape));
        Some(t.value)
    } else {
        None
    };
    let trun = if with_trun {
        // runs inside a traf carry sizes (C09 domain) but any other flag combination
        let t = gen_trun(rng, (shape * 7) | 16);
        kids.push(t.refbox);
        sh.push_str(&format!(",{}", t.shape));
        Some(t.value)
    } else {
        None
    };
    sh.push(']');
    Case { shape: sh, value: TrafBox { tfhd: h.value, tfdt, trun }, refbox: BoxT::container(b"traf", kids), nontrivial: true }
}

pub fn gen_moof(rng: &mut Rng, shape: usize) -> Case<MoofBox> {
    let m = gen_mfhd(rng, 0);
    let n = [0usize, 1, 2, 3][shape % 4];
    let mut kids = vec![m.refbox];
    let mut trafs = Vec::new();
    for i in 0..n {
        let t = gen_traf(rng, shape / 4 + i * 13);
        kids.push(t.refbox);
        trafs.push(t.value);
    }
    Case { shape: format!("moof trafs{}", n), value: MoofBox { mfhd: m.value, trafs }, refbox: BoxT::container(b"moof", kids), nontrivial: n > 0 }
}

pub fn gen_emsg(rng: &mut Rng, shape: usize) -> Case<EmsgBox> {
    let version = (shape % 2) as u8;
    let mut n = [0usize, 1, 7, 300][(shape / 2) % 4];
    if scale() && n == 300 {
        n = *rng.pick(&[8191usize, 8193, 9000, 70_000]);
    }
    let scheme = gen_name(rng, [0usize, 3, 40][(shape / 8) % 3]);
    let value = gen_name(rng, [0usize, 1, 9][(shape / 24) % 3]);
    let f = EmsgF { version, flags: rng.biased(24) as u32, timescale: rng.biased_u32(), presentation_time: rng.biased(64), presentation_time_delta: rng.biased_u32(), event_duration: rng.biased_u32(), id: rng.biased_u32(), scheme: scheme.as_bytes().to_vec(), value: value.as_bytes().to_vec(), data: rng.bytes(n) };
    Case {
        shape: format!("emsg v{} data{} s{} v{}", version, n, scheme.len().min(4), value.len().min(2)),
        value: EmsgBox {
            version,
            flags: f.flags,
            timescale: f.timescale,
            presentation_time: if version == 1 { Some(f.presentation_time) } else { None },
            presentation_time_delta: if version == 0 { Some(f.presentation_time_delta) } else { None },
            event_duration: f.event_duration,
            id: f.id,
            scheme_id_uri: scheme,
            value,
            message_data: f.data.clone(),
        },
        refbox: enc_emsg(&f),
        nontrivial: true,
    }
}

fn gen_visual(rng: &mut Rng) -> VisualF {
    VisualF { data_ref_index: rng.biased_u16(), width: rng.biased_u16(), height: rng.biased_u16(), hres: rng.biased_u32(), vres: rng.biased_u32(), frame_count: rng.biased_u16(), compressor: [0; 32], depth: rng.biased_u16() }
}

pub fn gen_avcc(rng: &mut Rng, shape: usize) -> Case<AvcCBox> {
    let ns = [0usize, 1, 2, 31][shape % 4];
    let np = [0usize, 1, 3, 255][(shape / 4) % 4];
    let nal = |rng: &mut Rng| -> Vec<u8> {
        let l = *rng.pick(&[0usize, 1, 4, 30, 300]);
        let mut v = rng.bytes(l);
        if l >= 4 {
            // sometimes in Annex B form (start code in front): still just bytes to the box
            crate::muxdrive::annex_b(rng, &mut v, 0x67);
        }
        v
    };
    let mut f = AvcCF { version: rng.biased_u8(), profile: rng.biased_u8(), compat: rng.biased_u8(), level: rng.biased_u8(), length_size_minus_one: rng.below(4) as u8, sps: (0..ns).map(|_| nal(rng)).collect(), pps: (0..np).map(|_| nal(rng)).collect() };
    if scale() {
        // one parameter set of each kind near the limit of its 16-bit length prefix
        for set in [&mut f.sps, &mut f.pps] {
            if let Some(first) = set.first_mut() {
                let l = *rng.pick(&[9000usize, 40_000, 65_533, 65_534, 65_535]);
                *first = rng.bytes(l);
            }
        }
    }
    Case {
        shape: format!("avcC sps{} pps{}", ns, np),
        value: AvcCBox {
            configuration_version: f.version,
            avc_profile_indication: f.profile,
            profile_compatibility: f.compat,
            avc_level_indication: f.level,
            length_size_minus_one: f.length_size_minus_one,
            sequence_parameter_sets: f.sps.iter().map(|b| NalUnit { bytes: b.clone() }).collect(),
            picture_parameter_sets: f.pps.iter().map(|b| NalUnit { bytes: b.clone() }).collect(),
        },
        refbox: enc_avcc(&f),
        nontrivial: ns + np > 0,
    }
}

pub fn gen_avc1(rng: &mut Rng, shape: usize) -> Case<Avc1Box> {
    let v = gen_visual(rng);
    let a = gen_avcc(rng, shape);
    Case {
        shape: format!("avc1[{}]", a.shape),
        value: Avc1Box { data_reference_index: v.data_ref_index, width: v.width, height: v.height, horizresolution: FixedPointU16::new_raw(v.hres), vertresolution: FixedPointU16::new_raw(v.vres), frame_count: v.frame_count, depth: v.depth, avcc: a.value },
        refbox: enc_visual(b"avc1", &v, vec![a.refbox]),
        nontrivial: true,
    }
}

pub fn gen_hvcc(rng: &mut Rng, shape: usize) -> Case<HvcCBox> {
    let na = [0usize, 1, 2, 3][shape % 4];
    let arrays: Vec<HvcCArrayF> = (0..na)
        .map(|_| {
            let nn = if scale() { *rng.pick(&[1usize, 2, 5, 300]) } else { *rng.pick(&[0usize, 1, 2, 5]) };
            let big = scale() && nn <= 5;
            HvcCArrayF { completeness: rng.bool(), nal_type: rng.below(64) as u8, nalus: (0..nn).map(|_| { let l = if big { *rng.pick(&[200usize, 40_000, 65_535]) } else { *rng.pick(&[0usize, 1, 10, 200, 250]) }; rng.bytes(l) }).collect() }
        })
        .collect();
    let f = HvcCF {
        version: rng.biased_u8(),
        profile_space: rng.below(4) as u8,
        tier: rng.bool(),
        profile_idc: rng.below(32) as u8,
        compat_flags: rng.biased_u32(),
        constraint_flags: rng.biased(48),
        level_idc: rng.biased_u8(),
        min_spatial_seg: rng.biased(12) as u16,
        parallelism: rng.below(4) as u8,
        chroma_format: rng.below(4) as u8,
        luma_m8: rng.below(8) as u8,
        chroma_m8: rng.below(8) as u8,
        avg_frame_rate: rng.biased_u16(),
        constant_frame_rate: rng.below(4) as u8,
        num_temporal_layers: rng.below(8) as u8,
        temporal_id_nested: rng.bool(),
        length_size_minus_one: rng.below(4) as u8,
        arrays,
        reserved_ones: false,
    };
    Case {
        shape: format!("hvcC arrays{}", na),
        value: HvcCBox {
            configuration_version: f.version,
            general_profile_space: f.profile_space,
            general_tier_flag: f.tier,
            general_profile_idc: f.profile_idc,
            general_profile_compatibility_flags: f.compat_flags,
            general_constraint_indicator_flag: f.constraint_flags,
            general_level_idc: f.level_idc,
            min_spatial_segmentation_idc: f.min_spatial_seg,
            parallelism_type: f.parallelism,
            chroma_format_idc: f.chroma_format,
            bit_depth_luma_minus8: f.luma_m8,
            bit_depth_chroma_minus8: f.chroma_m8,
            avg_frame_rate: f.avg_frame_rate,
            constant_frame_rate: f.constant_frame_rate,
            num_temporal_layers: f.num_temporal_layers,
            temporal_id_nested: f.temporal_id_nested,
            length_size_minus_one: f.length_size_minus_one,
            arrays: f.arrays.iter().map(|a| HvcCArray { completeness: a.completeness, nal_unit_type: a.nal_type, nalus: a.nalus.iter().map(|n| HvcCArrayNalu { size: n.len() as u16, data: n.clone() }).collect() }).collect(),
        },
        refbox: enc_hvcc(&f),
        nontrivial: true,
    }
}

/// the same hvcC with the reserved bits set as the specification prescribes (all ones)
pub fn hvcc_reserved_ones(b: &BoxT) -> BoxT {
    let mut b = b.clone();
    if let Some(Part::Data(pb)) = b.parts.first_mut() {
        // byte offsets of the reserved bit groups inside the payload
        pb.b[13] |= 0xF0;
        pb.b[15] |= 0xFC;
        pb.b[16] |= 0xFC;
        pb.b[17] |= 0xF8;
        pb.b[18] |= 0xF8;
    }
    b
}

pub fn gen_hev1(rng: &mut Rng, shape: usize) -> Case<Hev1Box> {
    let v = gen_visual(rng);
    let a = gen_hvcc(rng, shape);
    Case {
        shape: format!("hev1[{}]", a.shape),
        value: Hev1Box { data_reference_index: v.data_ref_index, width: v.width, height: v.height, horizresolution: FixedPointU16::new_raw(v.hres), vertresolution: FixedPointU16::new_raw(v.vres), frame_count: v.frame_count, depth: v.depth, hvcc: a.value },
        refbox: enc_visual(b"hev1", &v, vec![a.refbox]),
        nontrivial: true,
    }
}

pub fn gen_vpcc(rng: &mut Rng, _shape: usize) -> Case<VpccBox> {
    let f = VpcCF { version: rng.biased_u8(), flags: rng.biased(24) as u32, profile: rng.biased_u8(), level: rng.biased_u8(), bit_depth: rng.below(16) as u8, chroma_subsampling: rng.below(8) as u8, full_range: rng.bool(), colour_primaries: rng.biased_u8(), transfer: rng.biased_u8(), matrix: rng.biased_u8(), codec_init_size: rng.biased_u16() };
    Case {
        shape: "vpcC".into(),
        value: VpccBox { version: f.version, flags: f.flags, profile: f.profile, level: f.level, bit_depth: f.bit_depth, chroma_subsampling: f.chroma_subsampling, video_full_range_flag: f.full_range, color_primaries: f.colour_primaries, transfer_characteristics: f.transfer, matrix_coefficients: f.matrix, codec_initialization_data_size: f.codec_init_size },
        refbox: enc_vpcc(&f),
        nontrivial: true,
    }
}

pub fn gen_vp09(rng: &mut Rng, shape: usize) -> Case<Vp09Box> {
    let c = gen_vpcc(rng, shape);
    // the library models the 6 reserved bytes as FullBox header + start code and keeps the
    // pre_defined / reserved areas as raw fields
    let version = rng.biased_u8();
    let flags = rng.biased(24) as u32;
    let start_code = rng.biased_u16();
    let dri = rng.biased_u16();
    let r0 = rng.bytes(16);
    let (w, h) = (rng.biased_u16(), rng.biased_u16());
    let hres = (rng.biased_u16(), rng.biased_u16());
    let vres = (rng.biased_u16(), rng.biased_u16());
    let r1 = rng.bytes(4);
    let fc = rng.biased_u16();
    let comp = rng.bytes(32);
    let depth = rng.biased_u16();
    let end = rng.biased_u16();
    let mut p = PB::new();
    p.u8("reserved", Kind::Value, version).u24("reserved", Kind::Value, flags).u16("reserved", Kind::Value, start_code);
    p.u16("data_reference_index", Kind::Value, dri).raw(&r0);
    p.u16("width", Kind::Value, w).u16("height", Kind::Value, h);
    p.u16("hres", Kind::Value, hres.0).u16("hres", Kind::Value, hres.1).u16("vres", Kind::Value, vres.0).u16("vres", Kind::Value, vres.1);
    p.raw(&r1).u16("frame_count", Kind::Value, fc).raw(&comp).u16("depth", Kind::Value, depth).u16("pre_defined", Kind::Value, end);
    let mut b = BoxT::leaf(b"vp09", p);
    b.push(c.refbox);
    let mut a16 = [0u8; 16];
    a16.copy_from_slice(&r0);
    let mut a4 = [0u8; 4];
    a4.copy_from_slice(&r1);
    let mut a32 = [0u8; 32];
    a32.copy_from_slice(&comp);
    Case {
        shape: "vp09".into(),
        value: Vp09Box { version, flags, start_code, data_reference_index: dri, reserved0: a16, width: w, height: h, horizresolution: hres, vertresolution: vres, reserved1: a4, frame_count: fc, compressorname: a32, depth, end_code: end, vpcc: c.value },
        refbox: b,
        nontrivial: true,
    }
}

pub fn gen_esds_f(rng: &mut Rng, low_aot_only: bool, allow_freq15: bool) -> EsdsF {
    let mut aot = 1 + rng.below(30) as u8;
    if !low_aot_only && rng.chance(1, 3) {
        aot = 32 + rng.below(63) as u8;
    }
    let mut fi = rng.below(15) as u8;
    if allow_freq15 && rng.chance(1, 5) {
        fi = 15;
    }
    EsdsF {
        version: rng.biased_u8(),
        flags: rng.biased(24) as u32,
        es_id: rng.biased_u16(),
        object_type: rng.biased_u8(),
        stream_type: rng.below(64) as u8,
        up_stream: rng.bool(),
        buffer_size: rng.biased(24) as u32,
        max_bitrate: rng.biased_u32(),
        avg_bitrate: rng.biased_u32(),
        aot,
        freq_index: fi,
        // half of the explicit rates are the rates real encoders signal (the 13 table rates)
        freq: { let r = rng.biased(24) as u32; if r % 2 == 0 { [96000u32, 88200, 64000, 48000, 44100, 32000, 24000, 22050, 16000, 12000, 11025, 8000, 7350][(r / 2) as usize % 13] } else { r } },
        chan: rng.below(16) as u8,
        asc_tail_bits: 0,
        pad: [0; 4],
    }
}

pub fn esds_value(f: &EsdsF) -> EsdsBox {
    EsdsBox {
        version: f.version,
        flags: f.flags,
        es_desc: ESDescriptor {
            es_id: f.es_id,
            dec_config: DecoderConfigDescriptor {
                object_type_indication: f.object_type,
                stream_type: f.stream_type,
                up_stream: if f.up_stream { 2 } else { 0 },
                buffer_size_db: f.buffer_size,
                max_bitrate: f.max_bitrate,
                avg_bitrate: f.avg_bitrate,
                dec_specific: DecoderSpecificDescriptor { profile: f.aot, freq_index: f.freq_index, chan_conf: f.chan },
            },
            sl_config: SLConfigDescriptor {},
        },
    }
}

/// esds in the domain the library can encode (2-byte AudioSpecificConfig: AOT < 31, index < 15)
pub fn gen_esds(rng: &mut Rng, _shape: usize) -> Case<EsdsBox> {
    let f = gen_esds_f(rng, true, false);
    Case { shape: "esds".into(), value: esds_value(&f), refbox: enc_esds(&f), nontrivial: true }
}

pub fn gen_mp4a(rng: &mut Rng, shape: usize) -> Case<Mp4aBox> {
    let a = AudioF { data_ref_index: rng.biased_u16(), channelcount: rng.biased_u16(), samplesize: rng.biased_u16(), samplerate: rng.biased_u32() };
    if shape % 3 == 0 {
        Case { shape: "mp4a[]".into(), value: Mp4aBox { data_reference_index: a.data_ref_index, channelcount: a.channelcount, samplesize: a.samplesize, samplerate: FixedPointU16::new_raw(a.samplerate), esds: None }, refbox: enc_mp4a(&a, vec![]), nontrivial: false }
    } else {
        let e = gen_esds(rng, shape);
        Case { shape: "mp4a[esds]".into(), value: Mp4aBox { data_reference_index: a.data_ref_index, channelcount: a.channelcount, samplesize: a.samplesize, samplerate: FixedPointU16::new_raw(a.samplerate), esds: Some(e.value) }, refbox: enc_mp4a(&a, vec![e.refbox]), nontrivial: true }
    }
}

pub fn gen_tx3g(rng: &mut Rng, _shape: usize) -> Case<Tx3gBox> {
    let b4 = rng.bytes(4);
    let st = rng.bytes(12);
    let mut style = [0u8; 12];
    style.copy_from_slice(&st);
    let f = Tx3gF { data_ref_index: rng.biased_u16(), display_flags: rng.biased_u32(), hjust: rng.biased_u8() as i8, vjust: rng.biased_u8() as i8, bg: [b4[0], b4[1], b4[2], b4[3]], box_record: [rng.biased_i16(), rng.biased_i16(), rng.biased_i16(), rng.biased_i16()], style };
    Case {
        shape: "tx3g".into(),
        value: Tx3gBox { data_reference_index: f.data_ref_index, display_flags: f.display_flags, horizontal_justification: f.hjust, vertical_justification: f.vjust, bg_color_rgba: RgbaColor { red: f.bg[0], green: f.bg[1], blue: f.bg[2], alpha: f.bg[3] }, box_record: f.box_record, style_record: f.style },
        refbox: enc_tx3g(&f),
        nontrivial: true,
    }
}

pub fn gen_stsd(rng: &mut Rng, shape: usize) -> Case<StsdBox> {
    let (v, fl) = (rng.biased_u8(), rng.biased(24) as u32);
    let mut s = StsdBox { version: v, flags: fl, avc1: None, hev1: None, vp09: None, mp4a: None, tx3g: None };
    let (sh, entries) = match shape % 6 {
        0 => {
            let c = gen_avc1(rng, shape / 6);
            s.avc1 = Some(c.value);
            (c.shape, vec![c.refbox])
        }
        1 => {
            let c = gen_hev1(rng, shape / 6);
            s.hev1 = Some(c.value);
            (c.shape, vec![c.refbox])
        }
        2 => {
            let c = gen_vp09(rng, shape / 6);
            s.vp09 = Some(c.value);
            (c.shape, vec![c.refbox])
        }
        3 => {
            let c = gen_mp4a(rng, shape / 6);
            s.mp4a = Some(c.value);
            (c.shape, vec![c.refbox])
        }
        4 => {
            let c = gen_tx3g(rng, shape / 6);
            s.tx3g = Some(c.value);
            (c.shape, vec![c.refbox])
        }
        _ => ("empty".to_string(), vec![]),
    };
    let nt = !entries.is_empty();
    Case { shape: format!("stsd[{}]", sh), value: s, refbox: enc_stsd(v, fl, entries), nontrivial: nt }
}

pub fn gen_stbl(rng: &mut Rng, shape: usize) -> Case<StblBox> {
    let sd = gen_stsd(rng, shape % 5); // always one entry
    let tt = gen_stts(rng, shape / 5);
    let sc = gen_stsc(rng, shape / 3);
    let sz = gen_stsz(rng, shape / 7);
    let mut kids = vec![sd.refbox, tt.refbox];
    let ctts = if shape & 1 != 0 {
        let c = gen_ctts(rng, shape / 2);
        kids.push(c.refbox);
        Some(c.value)
    } else {
        None
    };
    let stss = if shape & 2 != 0 {
        let c = gen_stss(rng, shape / 4);
        kids.push(c.refbox);
        Some(c.value)
    } else {
        None
    };
    kids.push(sc.refbox);
    kids.push(sz.refbox);
    let (stco, co64) = if shape & 4 != 0 {
        let c = gen_co64(rng, shape / 8);
        kids.push(c.refbox);
        (None, Some(c.value))
    } else {
        let c = gen_stco(rng, shape / 8);
        kids.push(c.refbox);
        (Some(c.value), None)
    };
    Case {
        shape: format!("stbl ctts{} stss{} co64{}", (shape & 1), (shape >> 1) & 1, (shape >> 2) & 1),
        value: StblBox { stsd: sd.value, stts: tt.value, ctts, stss, stsc: sc.value, stsz: sz.value, stco, co64 },
        refbox: BoxT::container(b"stbl", kids),
        nontrivial: true,
    }
}

pub fn gen_minf(rng: &mut Rng, shape: usize) -> Case<MinfBox> {
    let mut kids = Vec::new();
    let vmhd = if shape % 3 == 0 {
        let c = gen_vmhd(rng, 0);
        kids.push(c.refbox);
        Some(c.value)
    } else {
        None
    };
    let smhd = if shape % 3 == 1 {
        let c = gen_smhd(rng, 0);
        kids.push(c.refbox);
        Some(c.value)
    } else {
        None
    };
    let d = gen_dinf(rng, 1 + (shape % 2)); // dref with a url entry
    let s = gen_stbl(rng, shape / 3);
    kids.push(d.refbox);
    kids.push(s.refbox);
    Case { shape: format!("minf m{}", shape % 3), value: MinfBox { vmhd, smhd, dinf: d.value, stbl: s.value }, refbox: BoxT::container(b"minf", kids), nontrivial: true }
}

pub fn gen_mdia(rng: &mut Rng, shape: usize) -> Case<MdiaBox> {
    let a = gen_mdhd(rng, shape);
    let b = gen_hdlr(rng, shape / 2);
    let c = gen_minf(rng, shape / 3);
    Case { shape: format!("mdia[{}]", a.shape), value: MdiaBox { mdhd: a.value, hdlr: b.value, minf: c.value }, refbox: BoxT::container(b"mdia", vec![a.refbox, b.refbox, c.refbox]), nontrivial: true }
}

pub fn gen_data(rng: &mut Rng, shape: usize) -> Case<DataBox> {
    let (dt, lib) = [(0u32, DataType::Binary), (1, DataType::Text), (13, DataType::Image), (21, DataType::TempoCpil)][shape % 4].clone();
    let n = [0usize, 1, 4, 255, 4096][(shape / 4) % 5];
    let d = rng.bytes(n);
    Case { shape: format!("data t{} n{}", dt, n), value: DataBox { data: d.clone(), data_type: lib }, refbox: enc_data(dt, 0, &d), nontrivial: n > 0 }
}

pub fn gen_ilst(rng: &mut Rng, shape: usize) -> Case<IlstBox> {
    let bits = shape % 16;
    let mut items = HashMap::new();
    let mut kids = Vec::new();
    for (bit, key, typ) in [(1usize, MetadataKey::Title, b"\xa9nam"), (2, MetadataKey::Year, b"\xa9day"), (4, MetadataKey::Poster, b"covr"), (8, MetadataKey::Summary, b"desc")] {
        if bits & bit != 0 {
            let d = gen_data(rng, shape / 16 + bit);
            items.insert(key, IlstItemBox { data: d.value });
            kids.push(BoxT::container(typ, vec![d.refbox]));
        }
    }
    Case { shape: format!("ilst items{:04b}", bits), value: IlstBox { items }, refbox: BoxT::container(b"ilst", kids), nontrivial: bits != 0 }
}

pub fn gen_meta(rng: &mut Rng, shape: usize) -> Case<MetaBox> {
    match shape % 3 {
        0 => {
            let hd = enc_hdlr(&HdlrF { handler: *b"mdir", ..Default::default() });
            Case { shape: "meta mdir[]".into(), value: MetaBox::Mdir { ilst: None }, refbox: enc_meta(true, vec![hd]), nontrivial: false }
        }
        1 => {
            let i = gen_ilst(rng, shape / 3);
            let hd = enc_hdlr(&HdlrF { handler: *b"mdir", ..Default::default() });
            Case { shape: format!("meta mdir[{}]", i.shape), value: MetaBox::Mdir { ilst: Some(i.value) }, refbox: enc_meta(true, vec![hd, i.refbox]), nontrivial: true }
        }
        _ => {
            let mut h = gen_hdlr(rng, shape / 3);
            if h.value.handler_type.value == *b"mdir" {
                h.value.handler_type = fcc(*b"mdta");
            }
            // regenerate the reference box after the possible handler change
            let hf = HdlrF { version: h.value.version, flags: h.value.flags, handler: h.value.handler_type.value, name: h.value.name.as_bytes().to_vec() };
            let n = [0usize, 1, 3][(shape / 3) % 3];
            let mut data = Vec::new();
            let mut kids = vec![enc_hdlr(&hf)];
            for _ in 0..n {
                // half of the children carry a type that exists elsewhere in the format (a reader
                // that gives one of them a meaning of its own, e.g. an extended header for
                // `uuid`, must still hand it back untouched here); the rest are random codes
                let mut t = if rng.bool() { *rng.pick(&[*b"uuid", *b"free", *b"skip", *b"wide", *b"keys", *b"xml ", *b"iloc", *b"iinf", *b"pitm", *b"idat", *b"iref", *b"ID32"]) } else { rnd4(rng) };
                if &t == b"hdlr" {
                    t = *b"keys";
                }
                let l = rng.usize_below(40);
                let d = rng.bytes(l);
                kids.push(free_box(&t, 0, 0));
                if let Some(Part::Data(pb)) = kids.last_mut().unwrap().parts.first_mut() {
                    pb.b = d.clone();
                }
                data.push((BoxType::from(u32::from_be_bytes(t)), d));
            }
            Case { shape: format!("meta other n{}", n), value: MetaBox::Unknown { hdlr: h.value, data }, refbox: enc_meta(true, kids), nontrivial: true }
        }
    }
}

pub fn gen_udta(rng: &mut Rng, shape: usize) -> Case<UdtaBox> {
    if shape % 4 == 0 {
        Case { shape: "udta[]".into(), value: UdtaBox { meta: None }, refbox: BoxT::container(b"udta", vec![]), nontrivial: false }
    } else {
        let m = gen_meta(rng, shape / 4);
        Case { shape: format!("udta[{}]", m.shape), value: UdtaBox { meta: Some(m.value) }, refbox: BoxT::container(b"udta", vec![m.refbox]), nontrivial: true }
    }
}

pub fn gen_trak(rng: &mut Rng, shape: usize) -> Case<TrakBox> {
    let t = gen_tkhd(rng, shape);
    let mut kids = vec![t.refbox];
    let edts = if shape & 1 != 0 {
        let e = gen_edts(rng, shape / 2);
        kids.push(e.refbox);
        Some(e.value)
    } else {
        None
    };
    let m = gen_mdia(rng, shape / 4);
    kids.push(m.refbox);
    let meta = if shape & 2 != 0 {
        let e = gen_meta(rng, shape / 4);
        kids.push(e.refbox);
        Some(e.value)
    } else {
        None
    };
    Case { shape: format!("trak edts{} meta{}", shape & 1, (shape >> 1) & 1), value: TrakBox { tkhd: t.value, edts, meta, mdia: m.value }, refbox: BoxT::container(b"trak", kids), nontrivial: true }
}

pub fn gen_moov(rng: &mut Rng, shape: usize) -> Case<MoovBox> {
    let v = gen_mvhd(rng, shape);
    let mut kids = vec![v.refbox];
    let n = [0usize, 1, 2][shape % 3];
    let mut traks = Vec::new();
    for i in 0..n {
        let t = gen_trak(rng, shape / 3 + i);
        kids.push(t.refbox);
        traks.push(t.value);
    }
    let mvex = if shape & 4 != 0 {
        let e = gen_mvex(rng, shape / 8);
        kids.push(e.refbox);
        Some(e.value)
    } else {
        None
    };
    let meta = if shape & 8 != 0 {
        let e = gen_meta(rng, shape / 16);
        kids.push(e.refbox);
        Some(e.value)
    } else {
        None
    };
    let udta = if shape & 16 != 0 {
        let e = gen_udta(rng, 1 + shape / 32);
        kids.push(e.refbox);
        Some(e.value)
    } else {
        None
    };
    Case { shape: format!("moov traks{} mvex{} meta{} udta{}", n, (shape >> 2) & 1, (shape >> 3) & 1, (shape >> 4) & 1), value: MoovBox { mvhd: v.value, meta, mvex, traks, udta }, refbox: BoxT::container(b"moov", kids), nontrivial: true }
}
