//! Thread CPU clock and resource limits via libc symbols (no crate needed).

#[repr(C)]
struct Timespec {
    tv_sec: i64,
    tv_nsec: i64,
}

#[repr(C)]
struct Rlimit {
    cur: u64,
    max: u64,
}

extern "C" {
    fn clock_gettime(clk: i32, ts: *mut Timespec) -> i32;
    fn setrlimit(res: i32, rl: *const Rlimit) -> i32;
    fn getrlimit(res: i32, rl: *mut Rlimit) -> i32;
}

/// Move only the SOFT limit of a resource. The hard limit is left alone: an unprivileged
/// process can lower it but never raise it again, so touching it makes every later call fail
/// (that was a bug here: the per-case watchdog pinned itself to its first value and killed
/// every worker after ~31 s of total CPU - seen as soon as a tier ran longer than that).
fn set_soft(res: i32, soft: u64) -> bool {
    let mut cur = Rlimit { cur: 0, max: 0 };
    unsafe {
        if getrlimit(res, &mut cur) != 0 {
            return false;
        }
        let rl = Rlimit { cur: soft.min(cur.max), max: cur.max };
        setrlimit(res, &rl) == 0
    }
}

const CLOCK_THREAD_CPUTIME_ID: i32 = 3;
const CLOCK_MONOTONIC: i32 = 1;
const RLIMIT_CPU: i32 = 0;
const RLIMIT_AS: i32 = 9;

pub fn thread_cpu_ns() -> u64 {
    let mut ts = Timespec { tv_sec: 0, tv_nsec: 0 };
    unsafe {
        clock_gettime(CLOCK_THREAD_CPUTIME_ID, &mut ts);
    }
    ts.tv_sec as u64 * 1_000_000_000 + ts.tv_nsec as u64
}

pub fn mono_ns() -> u64 {
    let mut ts = Timespec { tv_sec: 0, tv_nsec: 0 };
    unsafe {
        clock_gettime(CLOCK_MONOTONIC, &mut ts);
    }
    ts.tv_sec as u64 * 1_000_000_000 + ts.tv_nsec as u64
}

pub fn limit_cpu_seconds(s: u64) {
    set_soft(RLIMIT_CPU, s);
}

pub fn limit_address_space(bytes: u64) {
    let rl = Rlimit { cur: bytes, max: bytes };
    unsafe {
        setrlimit(RLIMIT_AS, &rl);
    }
}

const CLOCK_PROCESS_CPUTIME_ID: i32 = 2;

pub fn process_cpu_ns() -> u64 {
    let mut ts = Timespec { tv_sec: 0, tv_nsec: 0 };
    unsafe {
        clock_gettime(CLOCK_PROCESS_CPUTIME_ID, &mut ts);
    }
    ts.tv_sec as u64 * 1_000_000_000 + ts.tv_nsec as u64
}

/// Per-case CPU watchdog: allow `secs` more CPU seconds from now; when exceeded the kernel
/// sends SIGXCPU, the worker dies and the driver attributes the death to the journalled case.
pub fn arm_case_limit(secs: u64) {
    let used = process_cpu_ns() / 1_000_000_000 + 1;
    set_soft(RLIMIT_CPU, used + secs);
}
