//! mp4verif: runtime monitors for alfg/mp4-rust properties C01..C18 (see /verif/DESIGN.md).

#![allow(clippy::all)]
#![allow(dead_code)]

pub mod alloc;
pub mod boxgen;
pub mod cpu;
pub mod panicmon;
pub mod hostile;
pub mod layoutx;
pub mod model;
pub mod muxdrive;
pub mod prng;
pub mod readcheck;
pub mod refdec;
pub mod refenc;
pub mod report;
pub mod streams;
pub mod props;

#[cfg(feature = "track-alloc")]
#[global_allocator]
static GLOBAL: alloc::Counting = alloc::Counting;

use report::Args;

fn parse_args() -> Args {
    let argv: Vec<String> = std::env::args().collect();
    if argv.len() < 2 {
        eprintln!("usage: mp4verif <prop> --tier quick|thorough --seed N --shard i --nshards n --out dir [--only case]");
        std::process::exit(2);
    }
    let mut a = Args {
        prop: argv[1].clone(),
        tier: "quick".into(),
        seed: 1,
        shard: 0,
        nshards: 1,
        out: ".".into(),
        only: None,
        profile: if cfg!(debug_assertions) { "chk".into() } else { "rel".into() },
        extra: Vec::new(),
    };
    let mut i = 2;
    while i < argv.len() {
        let k = argv[i].as_str();
        let v = argv.get(i + 1).cloned().unwrap_or_default();
        match k {
            "--tier" => {
                a.tier = v;
                i += 2;
            }
            "--seed" => {
                a.seed = v.parse().expect("seed");
                i += 2;
            }
            "--shard" => {
                a.shard = v.parse().expect("shard");
                i += 2;
            }
            "--nshards" => {
                a.nshards = v.parse().expect("nshards");
                i += 2;
            }
            "--out" => {
                a.out = v;
                i += 2;
            }
            "--only" => {
                a.only = Some(v);
                i += 2;
            }
            other => {
                a.extra.push(other.to_string());
                i += 1;
            }
        }
    }
    a
}

fn main() {
    // interpreter / sanitizer tier: tiny workload, no rlimits, no files (runs under Miri)
    if std::env::args().nth(1).as_deref() == Some("sanit") {
        let arg = |i: usize, d: u64| std::env::args().nth(i).and_then(|s| s.parse().ok()).unwrap_or(d);
        panicmon::install();
        std::process::exit(props::sanit::run(arg(2, 1), arg(3, 0), arg(4, 1), arg(5, 40)));
    }
    // self-test of the per-case CPU watchdog: arm it repeatedly (as consecutive cases do), then
    // spin; the process must be killed by SIGXCPU a few seconds after the LAST arming
    if std::env::args().nth(1).as_deref() == Some("selftest-watchdog") {
        for _ in 0..5 {
            let t = cpu::process_cpu_ns();
            while cpu::process_cpu_ns() - t < 700_000_000 {}
            cpu::arm_case_limit(2);
        }
        eprintln!("armed 5 times over ~3.5 s of CPU; spinning");
        loop {}
    }
    let args = parse_args();
    panicmon::install();
    // CPU watchdog of last resort (a pure CPU loop that no stream budget can cut)
    cpu::limit_cpu_seconds(if args.tier == "thorough" { 14_400 } else { 1_800 });
    let code = props::run(&args);
    std::process::exit(code);
}
