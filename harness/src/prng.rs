//! Deterministic PRNG (splitmix64 seeding + xoshiro256**). All randomness of the harness
//! flows from VERIF_SEED through this type.

#[derive(Clone, Debug)]
pub struct Rng {
    s: [u64; 4],
}

pub fn splitmix(x: &mut u64) -> u64 {
    *x = x.wrapping_add(0x9E37_79B9_7F4A_7C15);
    let mut z = *x;
    z = (z ^ (z >> 30)).wrapping_mul(0xBF58_476D_1CE4_E5B9);
    z = (z ^ (z >> 27)).wrapping_mul(0x94D0_49BB_1331_11EB);
    z ^ (z >> 31)
}

/// 64-bit FNV-1a style mixing hash used for coverage fingerprints.
pub fn hash64(data: &[u8]) -> u64 {
    let mut h: u64 = 0xcbf2_9ce4_8422_2325;
    for b in data {
        h ^= *b as u64;
        h = h.wrapping_mul(0x0000_0100_0000_01B3);
    }
    // final avalanche
    let mut x = h;
    splitmix(&mut x)
}

pub fn hash_str(s: &str) -> u64 {
    hash64(s.as_bytes())
}

impl Rng {
    pub fn new(seed: u64) -> Self {
        let mut x = seed ^ 0xD6E8_FEB8_6659_FD93;
        let s = [
            splitmix(&mut x),
            splitmix(&mut x),
            splitmix(&mut x),
            splitmix(&mut x),
        ];
        Rng { s }
    }

    /// Derive an independent stream (for a shard, a case, ...).
    pub fn derive(seed: u64, a: u64, b: u64) -> Self {
        let mut x = seed;
        let h1 = splitmix(&mut x) ^ a.wrapping_mul(0x9E37_79B9_7F4A_7C15);
        let mut y = h1;
        let h2 = splitmix(&mut y) ^ b.wrapping_mul(0xC2B2_AE3D_27D4_EB4F);
        Rng::new(h2)
    }

    pub fn next_u64(&mut self) -> u64 {
        let result = self.s[1].wrapping_mul(5).rotate_left(7).wrapping_mul(9);
        let t = self.s[1] << 17;
        self.s[2] ^= self.s[0];
        self.s[3] ^= self.s[1];
        self.s[1] ^= self.s[2];
        self.s[0] ^= self.s[3];
        self.s[2] ^= t;
        self.s[3] = self.s[3].rotate_left(45);
        result
    }

    pub fn next_u32(&mut self) -> u32 {
        (self.next_u64() >> 32) as u32
    }

    /// Uniform in 0..n (n > 0).
    pub fn below(&mut self, n: u64) -> u64 {
        if n == 0 {
            return 0;
        }
        // multiply-shift; bias is irrelevant here
        ((self.next_u64() as u128 * n as u128) >> 64) as u64
    }

    pub fn usize_below(&mut self, n: usize) -> usize {
        self.below(n as u64) as usize
    }

    /// Uniform in lo..=hi.
    pub fn range(&mut self, lo: u64, hi: u64) -> u64 {
        debug_assert!(lo <= hi);
        if lo == 0 && hi == u64::MAX {
            return self.next_u64();
        }
        lo + self.below(hi - lo + 1)
    }

    pub fn chance(&mut self, num: u64, den: u64) -> bool {
        self.below(den) < num
    }

    pub fn bool(&mut self) -> bool {
        self.next_u64() & 1 == 1
    }

    pub fn pick<'a, T>(&mut self, xs: &'a [T]) -> &'a T {
        &xs[self.usize_below(xs.len())]
    }

    pub fn bytes(&mut self, n: usize) -> Vec<u8> {
        let mut v = Vec::with_capacity(n);
        while v.len() + 8 <= n {
            v.extend_from_slice(&self.next_u64().to_le_bytes());
        }
        while v.len() < n {
            v.push(self.next_u64() as u8);
        }
        v
    }

    /// Boundary-biased value of `bits` width (1..=64).
    pub fn biased(&mut self, bits: u32) -> u64 {
        let max = if bits >= 64 { u64::MAX } else { (1u64 << bits) - 1 };
        let v = match self.below(12) {
            0 => 0,
            1 => 1,
            2 => max,
            3 => max - 1.min(max),
            4 => (max >> 1) + 1,       // top bit only
            5 => max >> 1,             // all but top bit
            6 => self.below(16),
            7 => self.below(256),
            8 => {
                // a single bit
                1u64 << self.below(bits as u64)
            }
            9 => self.below(65536),
            _ => self.next_u64(),
        };
        v & max
    }

    pub fn biased_u32(&mut self) -> u32 {
        self.biased(32) as u32
    }
    pub fn biased_u16(&mut self) -> u16 {
        self.biased(16) as u16
    }
    pub fn biased_u8(&mut self) -> u8 {
        self.biased(8) as u8
    }
    pub fn biased_i32(&mut self) -> i32 {
        self.biased(32) as u32 as i32
    }
    pub fn biased_i16(&mut self) -> i16 {
        self.biased(16) as u16 as i16
    }

    pub fn shuffle<T>(&mut self, xs: &mut [T]) {
        for i in (1..xs.len()).rev() {
            let j = self.usize_below(i + 1);
            xs.swap(i, j);
        }
    }
}
