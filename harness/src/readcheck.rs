//! Reader-side oracle: open bytes with the real reader and compare every per-sample answer
//! with the model's expectations.

use crate::model::{Expect, Movie};
use crate::muxdrive::Fails;
use crate::panicmon;
use crate::streams::MonReader;
use mp4::Mp4Reader;
use serde_json::{json, Value};
use std::rc::Rc;

fn push(f: &mut Fails, rule: &str, v: Value) {
    if f.len() < 8 {
        f.push((rule.to_string(), v));
    }
}

pub struct Opts {
    pub compare_sync: bool,
    /// compare bytes with the file contents at the expected offset instead of the generator
    pub bytes_from_file: bool,
}

thread_local! {
    /// the file under test, for `Opts::bytes_from_file` (set by `check_plain`)
    static FILE: std::cell::RefCell<Option<Rc<Vec<u8>>>> = std::cell::RefCell::new(None);
}

fn file_bytes(e: &Expect) -> Option<Vec<u8>> {
    FILE.with(|f| f.borrow().as_ref().and_then(|b| b.get(e.offset as usize..e.offset as usize + e.size as usize).map(|x| x.to_vec())))
}

pub fn expected_bytes(e: &Expect) -> Vec<u8> {
    let mut v = Vec::with_capacity(e.size as usize);
    for i in 0..e.size as u64 {
        v.push(crate::streams::fill_byte(e.fill, i));
    }
    v
}

/// Compare all per-sample answers of an opened reader with `expect` (per track, in the order
/// of `ids`).
pub fn check_samples<R: std::io::Read + std::io::Seek>(
    mp4: &mut Mp4Reader<R>,
    ids: &[u32],
    expect: &[Vec<Expect>],
    opts: &Opts,
) -> Fails {
    let mut f = Fails::new();
    let mut got_ids: Vec<u32> = mp4.tracks().keys().cloned().collect();
    got_ids.sort();
    let mut want_ids = ids.to_vec();
    want_ids.sort();
    if got_ids != want_ids {
        push(&mut f, "track_ids", json!({"got": got_ids, "want": want_ids}));
        return f;
    }
    for (ti, tid) in ids.iter().enumerate() {
        let tid = *tid;
        let exp = &expect[ti];
        let n = exp.len() as u32;
        match panicmon::catch(|| mp4.sample_count(tid)) {
            Ok(Ok(c)) if c == n => {}
            Ok(Ok(c)) => push(&mut f, "sample_count", json!({"track": tid, "got": c, "want": n})),
            Ok(Err(e)) => push(&mut f, "sample_count_err", json!({"track": tid, "err": e.to_string()})),
            Err(p) => push(&mut f, "reader_panic", json!({"call": "sample_count", "site": p.site(), "msg": p.msg})),
        }
        for (k, e) in exp.iter().enumerate() {
            let sid = k as u32 + 1;
            match panicmon::catch(|| mp4.sample_offset(tid, sid)) {
                Ok(Ok(o)) if o == e.offset => {}
                Ok(Ok(o)) => push(&mut f, "sample_offset", json!({"track": tid, "sample": sid, "got": o, "want": e.offset})),
                Ok(Err(er)) => push(&mut f, "sample_offset_err", json!({"track": tid, "sample": sid, "err": er.to_string()})),
                Err(p) => push(&mut f, "reader_panic", json!({"call": "sample_offset", "track": tid, "sample": sid, "site": p.site(), "msg": p.msg})),
            }
            match panicmon::catch(|| mp4.read_sample(tid, sid)) {
                Ok(Ok(Some(s))) => {
                    let want = if opts.bytes_from_file { file_bytes(e).unwrap_or_else(|| expected_bytes(e)) } else { expected_bytes(e) };
                    if s.bytes.as_ref() != &want[..] {
                        let pos = s.bytes.iter().zip(want.iter()).position(|(a, b)| a != b);
                        push(&mut f, "sample_bytes", json!({"track": tid, "sample": sid, "got_len": s.bytes.len(), "want_len": want.len(), "first_diff": pos, "want_offset": e.offset}));
                    }
                    if s.start_time != e.start {
                        push(&mut f, "sample_start_time", json!({"track": tid, "sample": sid, "got": s.start_time, "want": e.start}));
                    }
                    if s.duration != e.delta {
                        push(&mut f, "sample_duration", json!({"track": tid, "sample": sid, "got": s.duration, "want": e.delta}));
                    }
                    if s.rendering_offset != e.cts {
                        push(&mut f, "sample_rendering_offset", json!({"track": tid, "sample": sid, "got": s.rendering_offset, "want": e.cts}));
                    }
                    if opts.compare_sync && s.is_sync != e.sync {
                        push(&mut f, "sample_sync", json!({"track": tid, "sample": sid, "got": s.is_sync, "want": e.sync}));
                    }
                }
                Ok(Ok(None)) => push(&mut f, "sample_missing", json!({"track": tid, "sample": sid, "of": n})),
                Ok(Err(er)) => push(&mut f, "sample_read_err", json!({"track": tid, "sample": sid, "of": n, "err": er.to_string()})),
                Err(p) => push(&mut f, "reader_panic", json!({"call": "read_sample", "track": tid, "sample": sid, "site": p.site(), "msg": p.msg})),
            }
            if f.len() >= 8 {
                return f;
            }
        }
        for sid in [0u32, n + 1, n + 2, n.saturating_add(77), u32::MAX] {
            if sid >= 1 && sid <= n {
                continue;
            }
            match panicmon::catch(|| mp4.read_sample(tid, sid)) {
                Ok(Ok(Some(_))) => push(&mut f, "sample_outside_range", json!({"track": tid, "sample": sid, "count": n})),
                Ok(_) => {}
                Err(p) => push(&mut f, "reader_panic", json!({"call": "read_sample", "track": tid, "sample": sid, "site": p.site(), "msg": p.msg})),
            }
        }
    }
    if !f.is_empty() {
        return f;
    }
    // The statement is about "reading sample k", whatever was looked up before: the same
    // questions again on the same reader, backwards per track, then in a pseudo-random order
    // that interleaves the tracks (offset, size, timing and a probe of the bytes).
    let mut order: Vec<(usize, u32)> = Vec::new();
    for (ti, exp) in expect.iter().enumerate() {
        let n = exp.len().min(3000);
        for k in (0..n).rev() {
            order.push((ti, k as u32 + 1));
        }
    }
    let mut shuffled: Vec<(usize, u32)> = order.iter().cloned().filter(|(_, s)| *s <= 400).collect();
    let mut x = 0x9E37_79B9_7F4A_7C15u64 ^ (shuffled.len() as u64).wrapping_mul(0xD6E8_FEB8_6659_FD93);
    for i in (1..shuffled.len()).rev() {
        x ^= x << 13;
        x ^= x >> 7;
        x ^= x << 17;
        shuffled.swap(i, (x % (i as u64 + 1)) as usize);
    }
    order.extend(shuffled);
    for (ti, sid) in order {
        let tid = ids[ti];
        let e = &expect[ti][sid as usize - 1];
        match panicmon::catch(|| mp4.sample_offset(tid, sid)) {
            Ok(Ok(o)) if o == e.offset => {}
            other => push(&mut f, "sample_offset_in_another_order", json!({"track": tid, "sample": sid, "want": e.offset, "got": format!("{:?}", other.map(|r| r.map_err(|x| x.to_string())).map_err(|p| p.msg))})),
        }
        match panicmon::catch(|| mp4.read_sample(tid, sid)) {
            Ok(Ok(Some(s))) => {
                let want = if opts.bytes_from_file { file_bytes(e).unwrap_or_else(|| expected_bytes(e)) } else { expected_bytes(e) };
                if s.bytes.as_ref() != &want[..] || s.start_time != e.start || s.duration != e.delta || s.rendering_offset != e.cts || (opts.compare_sync && s.is_sync != e.sync) {
                    push(&mut f, "sample_in_another_order", json!({"track": tid, "sample": sid, "got": {"len": s.bytes.len(), "start": s.start_time, "dur": s.duration, "cts": s.rendering_offset, "sync": s.is_sync},
                        "want": {"len": want.len(), "start": e.start, "dur": e.delta, "cts": e.cts, "sync": e.sync, "offset": e.offset}, "bytes_equal": s.bytes.as_ref() == &want[..]}));
                }
            }
            other => push(&mut f, "sample_in_another_order", json!({"track": tid, "sample": sid, "got": format!("{:?}", other.map(|r| r.map(|o| o.map(|s| s.bytes.len())).map_err(|x| x.to_string())).map_err(|p| p.msg))})),
        }
        if f.len() >= 8 {
            return f;
        }
    }
    f
}

pub fn open(bytes: &Rc<Vec<u8>>) -> Result<Mp4Reader<MonReader>, (String, Value)> {
    let len = bytes.len() as u64;
    let data = bytes.clone();
    // generous logical budget: a reader that loops without consuming input ends with an
    // I/O error ("budget exceeded") instead of hanging the worker
    let ctl = crate::streams::Ctl::new();
    ctl.budget_ops.set(50_000 + 64 * len);
    ctl.budget_bytes.set((4 << 20) + 64 * len);
    match panicmon::catch(move || Mp4Reader::read_header(MonReader::new(data, ctl), len)) {
        Err(p) => Err(("reader_panic".into(), json!({"call": "read_header", "site": p.site(), "msg": p.msg}))),
        Ok(Err(e)) => Err(("reader_open_error".into(), json!({"err": e.to_string()}))),
        Ok(Ok(m)) => Ok(m),
    }
}

pub fn check_plain(bytes: &Rc<Vec<u8>>, movie: &Movie, expect: &[Vec<Expect>], opts: &Opts) -> Fails {
    let mut mp4 = match open(bytes) {
        Ok(m) => m,
        Err(e) => return vec![e],
    };
    let ids: Vec<u32> = movie.tracks.iter().map(|t| t.id).collect();
    if opts.bytes_from_file {
        FILE.with(|f| *f.borrow_mut() = Some(bytes.clone()));
    }
    let r = check_samples(&mut mp4, &ids, expect, opts);
    FILE.with(|f| *f.borrow_mut() = None);
    r
}

/// One call result rendered for comparison (errors by variant + message; samples by all
/// fields plus a hash of the bytes).
pub fn render_sample_result(r: &mp4::Result<Option<mp4::Mp4Sample>>) -> String {
    match r {
        Ok(Some(s)) => format!("some(start={} dur={} cts={} sync={} len={} h={:016x})", s.start_time, s.duration, s.rendering_offset, s.is_sync, s.bytes.len(), crate::prng::hash64(&s.bytes)),
        Ok(None) => "none".to_string(),
        Err(e) => format!("err({:?}:{})", std::mem::discriminant(e), e),
    }
}

pub fn is_io_error<T>(r: &mp4::Result<T>) -> bool {
    matches!(r, Err(mp4::Error::IoError(_)))
}

/// Everything observable about an opened reader: accessor transcript plus every sample call
/// for ids 0..=count+1 of every track.
pub fn full_transcript<R: std::io::Read + std::io::Seek>(mp4: &mut Mp4Reader<R>) -> String {
    let mut s = crate::props::c12::transcript(mp4);
    let mut ids: Vec<u32> = mp4.tracks().keys().cloned().collect();
    ids.sort();
    for id in ids {
        let n = mp4.sample_count(id).unwrap_or(0).min(5000);
        for k in 0..=n + 1 {
            let off = mp4.sample_offset(id, k).map_err(|e| e.to_string());
            let r = mp4.read_sample(id, k);
            s.push_str(&format!("t{} s{} off={:?} {}\n", id, k, off, render_sample_result(&r)));
        }
    }
    s
}
