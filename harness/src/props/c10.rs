//! C10 — I/O failures surface as I/O errors; short reads / writes and interrupted calls are
//! transparent. Fault enumeration: for every explored file / history, a fault-free run counts
//! the K stream calls, then the run is repeated once per k < K (x fault kind) with exactly one
//! injected fault at call k.

use crate::hostile::corpus;
use crate::muxdrive::{self, CallRes, History, Op};
use crate::panicmon;
use crate::prng::{hash_str, Rng};
use crate::readcheck::{full_transcript, is_io_error};
use crate::report::{Args, Report};
use crate::streams::{Ctl, FaultKind, MonReader, MonWriter, OpKind};
use mp4::Mp4Reader;
use serde_json::json;
use std::rc::Rc;

fn opk(k: Option<OpKind>) -> &'static str {
    match k {
        Some(OpKind::Read) => "read",
        Some(OpKind::Seek) => "seek",
        Some(OpKind::Write) => "write",
        Some(OpKind::Flush) => "flush",
        None => "none",
    }
}

/// What happened to the library call during which the injected fault fired.
fn classify<T>(r: &Result<mp4::Result<T>, panicmon::PanicInfo>) -> &'static str {
    match r {
        Err(_) => "panic",
        Ok(Ok(_)) => "ok",
        Ok(Err(mp4::Error::IoError(_))) => "io_error",
        Ok(Err(_)) => "other_error",
    }
}

struct ReaderSubject<'a> {
    name: &'a str,
    bytes: Rc<Vec<u8>>,
    init: Option<Rc<Vec<u8>>>,
}

fn open_with(sub: &ReaderSubject, ctl: Rc<Ctl>) -> Result<mp4::Result<Mp4Reader<MonReader>>, panicmon::PanicInfo> {
    let n = sub.bytes.len() as u64;
    let data = sub.bytes.clone();
    match &sub.init {
        None => panicmon::catch(move || Mp4Reader::read_header(MonReader::new(data, ctl), n)),
        Some(i) => {
            let il = i.len() as u64;
            let base = match Mp4Reader::read_header(MonReader::plain(i.clone()), il) {
                Ok(b) => b,
                Err(e) => return Ok(Err(e)),
            };
            panicmon::catch(move || base.read_fragment_header(MonReader::new(data, ctl), n))
        }
    }
}

/// Reader side: faults during open and during every sample read; then short-transfer runs.
fn reader_subject(sub: &ReaderSubject, si: usize, args: &Args, rep: &mut Report, idx: &mut u64) {
    // ---- fault-free run
    let ctl0 = Ctl::new();
    let mut base = match open_with(sub, ctl0.clone()) {
        Ok(Ok(r)) => r,
        _ => return,
    };
    let k_open = ctl0.ops.get();
    let plain_transcript = full_transcript(&mut base);
    let mut ids: Vec<u32> = base.tracks().keys().cloned().collect();
    ids.sort();
    // ---- single fault at every op of the open call
    for k in 0..k_open {
        *idx += 1;
        if !args.mine(*idx) {
            continue;
        }
        let id = format!("r{}:open:{}", si, k);
        if !args.want(&id) {
            continue;
        }
        rep.begin(&id);
        let ctl = Ctl::new();
        ctl.fault_at.set(Some(k));
        ctl.fault_kind_sel.set(si as u64);
        ctl.fault_kind.set(FaultKind::Error);
        let r = open_with(sub, ctl.clone());
        let fired = ctl.fault_fired.get();
        let outcome = classify(&r);
        rep.add("fault_points", 1);
        rep.cover_nt(hash_str(&format!("open|{}|{}", opk(fired), outcome)));
        rep.note("fault_site_kinds", &format!("open:{}", opk(fired)));
        if fired.is_some() && outcome != "io_error" {
            let detail = match &r {
                Err(p) => json!({"site": p.site(), "msg": p.msg}),
                Ok(Err(e)) => json!({"err": e.to_string()}),
                _ => json!({}),
            };
            rep.fail("C10", &id, &format!("fault_during_open_gave_{}", outcome), json!({"file": sub.name, "op_index": k, "of": k_open, "op_kind": opk(fired), "detail": detail}));
        }
        rep.end();
        if rep.too_many_fails() {
            return;
        }
    }
    // ---- single fault at every op of every sample read (ids 1..=min(count, 6) per track)
    for tid in &ids {
        let cnt = base.sample_count(*tid).unwrap_or(0).min(6);
        for sid in 1..=cnt {
            // count the ops of this call on a fresh reader
            let c0 = Ctl::new();
            let mut r0 = match open_with(sub, c0.clone()) {
                Ok(Ok(r)) => r,
                _ => return,
            };
            let before = c0.ops.get();
            let good = r0.read_sample(*tid, sid);
            let k_call = c0.ops.get() - before;
            if !matches!(good, Ok(Some(_))) {
                continue;
            }
            for k in 0..k_call {
                *idx += 1;
                if !args.mine(*idx) {
                    continue;
                }
                let id = format!("r{}:read:{}:{}:{}", si, tid, sid, k);
                if !args.want(&id) {
                    continue;
                }
                rep.begin(&id);
                let ctl = Ctl::new();
                let mut rd = match open_with(sub, ctl.clone()) {
                    Ok(Ok(r)) => r,
                    _ => {
                        rep.end();
                        continue;
                    }
                };
                ctl.fault_kind_sel.set(si as u64);
                ctl.fault_at.set(Some(ctl.ops.get() + k));
                let r = panicmon::catch(|| rd.read_sample(*tid, sid));
                let fired = ctl.fault_fired.get();
                let outcome = classify(&r);
                rep.add("fault_points", 1);
                rep.cover_nt(hash_str(&format!("read_sample|{}|{}", opk(fired), outcome)));
                rep.note("fault_site_kinds", &format!("read_sample:{}", opk(fired)));
                if fired.is_some() && outcome != "io_error" {
                    let detail = match &r {
                        Err(p) => json!({"site": p.site(), "msg": p.msg}),
                        Ok(Err(e)) => json!({"err": e.to_string()}),
                        Ok(Ok(s)) => json!({"returned": s.as_ref().map(|x| x.bytes.len())}),
                    };
                    rep.fail("C10", &id, &format!("fault_during_read_sample_gave_{}", outcome), json!({"file": sub.name, "track": tid, "sample": sid, "op_index": k, "of": k_call, "op_kind": opk(fired), "detail": detail}));
                }
                // a failed call must not poison the reader: the same call without a fault
                // afterwards gives the fault-free answer (also part of C15, cheap to see here)
                rep.end();
                if rep.too_many_fails() {
                    return;
                }
            }
        }
    }
    // ---- short transfers and interrupted calls: identical observations
    for (mode, chunk, random, intr) in [("1_byte", 1usize, false, 0u64), ("random_1_7", 7, true, 0), ("interrupted", 0, false, 3), ("3_bytes_interrupted", 3, false, 2)] {
        *idx += 1;
        if !args.mine(*idx) {
            continue;
        }
        let id = format!("r{}:short:{}", si, mode);
        if !args.want(&id) {
            continue;
        }
        rep.begin(&id);
        let ctl = Ctl::new();
        ctl.chunk.set(chunk);
        ctl.chunk_random.set(random);
        ctl.interrupt_every.set(intr);
        ctl.set_rand_seed(args.seed ^ si as u64);
        let r = open_with(sub, ctl.clone());
        rep.add("short_transfer_runs", 1);
        rep.cover_nt(hash_str(&format!("reader_short|{}", mode)));
        match r {
            Ok(Ok(mut rd)) => match panicmon::catch(|| full_transcript(&mut rd)) {
                Ok(t) => {
                    if t != plain_transcript {
                        let line = t.lines().zip(plain_transcript.lines()).position(|(a, b)| a != b);
                        rep.fail("C10", &id, "short_transfers_changed_results", json!({"file": sub.name, "mode": mode, "first_differing_line": line,
                            "got": line.and_then(|l| t.lines().nth(l)).map(|s| s.chars().take(200).collect::<String>()),
                            "want": line.and_then(|l| plain_transcript.lines().nth(l)).map(|s| s.chars().take(200).collect::<String>())}));
                    }
                    rep.add("interrupts_injected", ctl.interrupts.get());
                }
                Err(p) => rep.fail("C10", &id, "panic_with_short_transfers", json!({"file": sub.name, "mode": mode, "site": p.site(), "msg": p.msg})),
            },
            Ok(Err(e)) => rep.fail("C10", &id, "short_transfers_broke_open", json!({"file": sub.name, "mode": mode, "err": e.to_string()})),
            Err(p) => rep.fail("C10", &id, "panic_with_short_transfers", json!({"file": sub.name, "mode": mode, "site": p.site(), "msg": p.msg})),
        }
        rep.end();
    }
}

/// Writer side.
fn writer_subject(h: &History, hi: usize, args: &Args, rep: &mut Report, idx: &mut u64) {
    // fault-free run: number of stream calls, result of every call, output bytes
    let ctl0 = Ctl::new();
    let run0 = muxdrive::run_history(h, MonWriter::new(ctl0.clone()), |_, _, _, _| {});
    if !run0.ended_ok {
        return;
    }
    let k_total = ctl0.ops.get();
    // stream calls made by write_start alone (a fault index below this is inside write_start)
    let k_start = {
        let c = Ctl::new();
        let cfg = muxdrive::mp4_config(h);
        let _ = mp4::Mp4Writer::write_start(MonWriter::new(c.clone()), &cfg);
        c.ops.get()
    };
    let good_out = run0.writer.map(|w| w.buf).unwrap_or_default();
    let good_calls: Vec<String> = run0.calls.iter().map(|c| c.tag()).collect();
    for k in 0..k_total {
        for kind in [FaultKind::Error, FaultKind::WriteZero] {
            *idx += 1;
            if !args.mine(*idx) {
                continue;
            }
            let kn = if kind == FaultKind::Error { "error" } else { "write_zero" };
            let id = format!("w{}:{}:{}", hi, kn, k);
            if !args.want(&id) {
                continue;
            }
            rep.begin(&id);
            let ctl = Ctl::new();
            ctl.fault_at.set(Some(k));
            ctl.fault_kind_sel.set(hi as u64);
            ctl.fault_kind.set(kind);
            // which library call is in progress when the fault fires
            let mut fired_in: Option<(usize, String)> = None;
            let c2 = ctl.clone();
            let run = muxdrive::run_history(h, MonWriter::new(ctl.clone()), |i, op, res, _| {
                if fired_in.is_none() && c2.fault_fired.get().is_some() {
                    let call = match op {
                        Op::Add(_) => "add_track",
                        Op::Write { .. } => "write_sample",
                        Op::End => "write_end",
                    };
                    fired_in = Some((i, format!("{}|{}", call, res.tag())));
                }
            });
            let fired = ctl.fault_fired.get();
            rep.add("fault_points", 1);
            // the fault may fire inside write_start (before any op)
            let (call_idx, call_name, res): (i64, String, CallRes) = if k < k_start {
                (-1, "write_start".into(), run.start.clone())
            } else if let Some((i, _)) = &fired_in {
                let name = match &h.ops[*i] {
                    Op::Add(_) => "add_track",
                    Op::Write { .. } => "write_sample",
                    Op::End => "write_end",
                };
                (*i as i64, name.to_string(), run.calls[*i].clone())
            } else {
                (-2, "none".into(), CallRes::Ok)
            };
            let outcome = match &res {
                CallRes::Ok => "ok",
                CallRes::Err { io: true, .. } => "io_error",
                CallRes::Err { io: false, .. } => "other_error",
                CallRes::Panic(_) => "panic",
            };
            rep.cover_nt(hash_str(&format!("{}|{}|{}|{}", call_name, opk(fired), kn, outcome)));
            rep.note("fault_site_kinds", &format!("{}:{}:{}", call_name, opk(fired), kn));
            if fired.is_some() {
                if outcome != "io_error" {
                    rep.fail("C10", &id, &format!("fault_during_{}_gave_{}", call_name, outcome), json!({"history": h.short(), "op_index": k, "of": k_total, "fault": kn, "stream_op": opk(fired), "call_index": call_idx, "result": res.tag()}));
                }
                // earlier calls returned what the fault-free run returned
                for j in 0..(call_idx.max(0) as usize) {
                    if run.calls.get(j).map(|c| c.tag()) != good_calls.get(j).cloned() {
                        rep.fail("C10", &id, "earlier_call_result_changed", json!({"history": h.short(), "op_index": k, "call": j}));
                        break;
                    }
                }
            }
            rep.end();
            if rep.too_many_fails() {
                return;
            }
        }
    }
    // short writes / interrupted writes: byte-identical output
    for (mode, chunk, random, intr) in [("1_byte", 1usize, false, 0u64), ("random_1_7", 7, true, 0), ("interrupted", 0, false, 3), ("2_bytes_interrupted", 2, true, 2)] {
        *idx += 1;
        if !args.mine(*idx) {
            continue;
        }
        let id = format!("w{}:short:{}", hi, mode);
        if !args.want(&id) {
            continue;
        }
        rep.begin(&id);
        let ctl = Ctl::new();
        ctl.chunk.set(chunk);
        ctl.chunk_random.set(random);
        ctl.interrupt_every.set(intr);
        ctl.set_rand_seed(args.seed ^ (hi as u64) << 8);
        let run = muxdrive::run_history(h, MonWriter::new(ctl.clone()), |_, _, _, _| {});
        rep.add("short_transfer_runs", 1);
        rep.cover_nt(hash_str(&format!("writer_short|{}", mode)));
        let calls: Vec<String> = run.calls.iter().map(|c| c.tag()).collect();
        if calls != good_calls || !run.start.is_ok() {
            rep.fail("C10", &id, "short_writes_changed_call_results", json!({"history": h.short(), "mode": mode, "calls": calls.iter().take(8).collect::<Vec<_>>()}));
        } else {
            let out = run.writer.map(|w| w.buf).unwrap_or_default();
            if out != good_out {
                let p = out.iter().zip(good_out.iter()).position(|(a, b)| a != b);
                rep.fail("C10", &id, "short_writes_changed_output", json!({"history": h.short(), "mode": mode, "len": out.len(), "want_len": good_out.len(), "first_diff": p}));
            }
        }
        rep.add("interrupts_injected", ctl.interrupts.get());
        rep.end();
    }
}

pub fn run(args: &Args) -> i32 {
    let mut rep = Report::new(args, true);
    let mut idx = 0u64;
    // ---- reader subjects: the valid seed corpus (big canned file only in thorough)
    let seeds = corpus(args.seed, args.thorough());
    let max_files = seeds.len();
    for (si, s) in seeds.iter().enumerate().take(max_files) {
        let sub = ReaderSubject { name: &s.name, bytes: Rc::new(s.bytes.clone()), init: s.init.as_ref().map(|i| Rc::new(i.clone())) };
        reader_subject(&sub, si, args, &mut rep, &mut idx);
        rep.note("files", &s.name);
        if rep.too_many_fails() {
            return rep.finish();
        }
    }
    // ---- reader subjects, generated: plain movies (several tracks, interleaved chunks, every
    // table form) and self-contained fragmented movies
    let ng = args.scale(800, 16_000);
    for g in 0..ng {
        let mut rng = Rng::derive(args.seed, 0x10C, g);
        let (bytes, name) = if g % 2 == 0 {
            let mut m = crate::model::gen_movie(&mut rng, 3, 10, 24);
            if g % 8 == 2 {
                // user data with an item list, in every form C18 generates (meta box with and
                // without its full-box header - the reader rewinds for the latter -, handler
                // first or not, in moov or in a trak): each of those paths has its own seeks
                let mut t = crate::props::c18::gen_tags(&mut rng, true);
                for it in t.items.iter_mut() {
                    it.2.truncate(24);
                }
                if g % 16 == 2 {
                    t.meta_fullbox = false;
                    t.hdlr_first = true;
                }
                m.tags = Some(t);
                rep.add("generated_reader_subjects_with_an_item_list", if args.shard == 0 { 1 } else { 0 });
            }
            let fl = crate::model::gen_file_layout(&mut rng, &m);
            (crate::model::build_plain(&m, &fl, &|_| {}).ser.bytes, format!("generated movie {}", g))
        } else {
            let same_trex = rng.bool();
            let fm = crate::model::gen_frag_movie(&mut rng, 3, 2, 3, same_trex);
            (crate::model::build_fragmented(&fm).whole.bytes, format!("generated fragmented movie {}", g))
        };
        let sub = ReaderSubject { name: &name, bytes: Rc::new(bytes), init: None };
        reader_subject(&sub, 1000 + g as usize, args, &mut rep, &mut idx);
        if rep.too_many_fails() {
            return rep.finish();
        }
    }
    rep.add("generated_reader_subjects", if args.shard == 0 { ng } else { 0 });
    // ---- writer subjects
    let nh = args.scale(4_000, 60_000);
    for hi in 0..nh as usize {
        let mut rng = Rng::derive(args.seed, 0xC10, hi as u64);
        let (mt, ms, mz) = if hi % 5 == 0 { (3, 40, 200) } else { (2, 8, 40) };
        let h = muxdrive::gen_history(&mut rng, mt, ms, mz, true);
        if !muxdrive::representable(&h) {
            continue;
        }
        writer_subject(&h, hi, args, &mut rep, &mut idx);
        if rep.want_sample() && args.shard == 0 {
            rep.sample(json!({"writer_history": h.short()}));
        }
        if rep.too_many_fails() {
            break;
        }
    }
    rep.finish()
}
