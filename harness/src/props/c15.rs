//! C15 — reads are history independent; muxing and parsing are deterministic.
//! (a) a long-lived reader is given a random schedule of calls (any order, repetition, valid and
//!     failing calls); every result must equal the result of the same single call on a FRESH
//!     reader;
//! (b) the same muxing history gives byte-identical output twice in one process and in a
//!     separate process (per-process hash seeds differ);
//! (c) opening the same bytes twice gives equal structures.

use crate::hostile::{corpus, mutate_havoc};
use crate::muxdrive;
use crate::panicmon;
use crate::prng::{hash64, hash_str, Rng};
use crate::readcheck::render_sample_result;
use crate::report::{Args, Report};
use crate::streams::{MonReader, MonWriter};
use mp4::Mp4Reader;
use serde_json::json;
use std::collections::HashMap;
use std::rc::Rc;

#[derive(Clone, Copy, Debug, PartialEq, Eq, Hash)]
enum Call {
    ReadSample(u32, u32),
    SampleOffset(u32, u32),
    SampleCount(u32),
    TrackAccessors(u32),
    MovieAccessors,
}

impl Call {
    fn kind(&self) -> &'static str {
        match self {
            Call::ReadSample(..) => "read_sample",
            Call::SampleOffset(..) => "sample_offset",
            Call::SampleCount(..) => "sample_count",
            Call::TrackAccessors(..) => "track_accessors",
            Call::MovieAccessors => "movie_accessors",
        }
    }
}

fn perform(mp4: &mut Mp4Reader<MonReader>, c: Call) -> String {
    let r = panicmon::catch(|| match c {
        Call::ReadSample(t, s) => render_sample_result(&mp4.read_sample(t, s)),
        Call::SampleOffset(t, s) => format!("{:?}", mp4.sample_offset(t, s).map_err(|e| e.to_string())),
        Call::SampleCount(t) => format!("{:?}", mp4.sample_count(t).map_err(|e| e.to_string())),
        Call::TrackAccessors(t) => match mp4.tracks().get(&t) {
            Some(tr) => format!(
                "{:?} {:?} {}x{} {} {} {:?} {} {} {:?} {:?} {:?}",
                tr.track_type().ok(), tr.media_type().ok(), tr.width(), tr.height(), tr.language(), tr.timescale(), tr.duration(), tr.bitrate(), tr.sample_count(),
                tr.audio_profile().ok(), tr.video_profile().ok(), tr.sequence_parameter_set().ok().map(|x| x.len())
            ),
            None => "no such track".into(),
        },
        Call::MovieAccessors => {
            use mp4::Metadata;
            let md = mp4.metadata();
            format!("{} {:?} {} {} {:?} {:?} {:?}", mp4.size(), mp4.duration(), mp4.timescale(), mp4.is_fragmented(), md.title(), md.year(), md.poster().map(|p| p.len()))
        }
    });
    match r {
        Ok(s) => s,
        Err(p) => format!("PANIC {}: {}", p.site(), p.msg),
    }
}

fn open(bytes: &Rc<Vec<u8>>, init: &Option<Rc<Vec<u8>>>) -> Option<Mp4Reader<MonReader>> {
    open_ctl(bytes, init, crate::streams::Ctl::new())
}

/// open with a control block the caller keeps (to inject a transient I/O error later on)
fn open_ctl(bytes: &Rc<Vec<u8>>, init: &Option<Rc<Vec<u8>>>, ctl: Rc<crate::streams::Ctl>) -> Option<Mp4Reader<MonReader>> {
    let n = bytes.len() as u64;
    let data = bytes.clone();
    let r = match init {
        None => panicmon::catch(move || Mp4Reader::read_header(MonReader::new(data, ctl), n)),
        Some(i) => {
            let il = i.len() as u64;
            let base = Mp4Reader::read_header(MonReader::plain(i.clone()), il).ok()?;
            panicmon::catch(move || base.read_fragment_header(MonReader::new(data, ctl), n))
        }
    };
    match r {
        Ok(Ok(m)) => Some(m),
        _ => None,
    }
}

fn prev_bad_then_successor(last_bad: Option<(u32, u32)>, last_ok: Option<(u32, u32)>, t: u32, s: u32) -> bool {
    last_bad.is_some() && last_ok.map(|(lt, ls)| lt == t && ls.wrapping_add(1) == s).unwrap_or(false)
}

/// (d) A media segment's reader takes the movie header (ftyp, moov) from its parent and nothing
/// else: the same segment bytes opened through parents with different histories - the reader
/// of the initialisation segment, a reader that is itself a segment reader (walking segment
/// after segment), a reader of a file holding header AND fragments, a parent that has already
/// answered calls - must give equal structures and equal answers.
fn parent_history_case(id: &str, name: &str, init: &Rc<Vec<u8>>, segment: &Rc<Vec<u8>>, whole: Option<&Rc<Vec<u8>>>, rep: &mut Report) {
    rep.begin(id);
    let open_init = || Mp4Reader::read_header(MonReader::plain(init.clone()), init.len() as u64).ok();
    let seg = |p: &Mp4Reader<MonReader>| -> Option<Mp4Reader<MonReader>> {
        match panicmon::catch(|| p.read_fragment_header(MonReader::plain(segment.clone()), segment.len() as u64)) {
            Ok(Ok(r)) => Some(r),
            _ => None,
        }
    };
    let render = |r: &mut Mp4Reader<MonReader>| -> String {
        let mut ids: Vec<u32> = r.tracks().keys().cloned().collect();
        ids.sort();
        let mut s = format!("moofs={:?}\n", r.moofs);
        for t in ids {
            let tr = &r.tracks()[&t];
            s.push_str(&format!("t{} trafs={:?} moof_offsets={:?} dsd={}\n", t, tr.trafs, tr.moof_offsets, tr.default_sample_duration));
        }
        match panicmon::catch(|| crate::readcheck::full_transcript(r)) {
            Ok(t) => s.push_str(&t),
            Err(p) => s.push_str(&format!("PANIC {}: {}", p.site(), p.msg)),
        }
        s
    };
    let p0 = match open_init() {
        Some(p) => p,
        None => {
            rep.add("subjects_not_openable", 1);
            rep.end();
            return;
        }
    };
    let mut base = match seg(&p0) {
        Some(r) => r,
        None => {
            rep.add("subjects_not_openable", 1);
            rep.end();
            return;
        }
    };
    let want = render(&mut base);
    let mut parents: Vec<(&str, Mp4Reader<MonReader>)> = Vec::new();
    // a parent that is a segment reader itself; and one two links down the chain
    if let Some(p1) = seg(&p0) {
        if let Some(p2) = seg(&p1) {
            parents.push(("segment reader of a segment reader", p2));
        }
        parents.push(("segment reader", p1));
    }
    // a parent that has answered calls (sample reads included) before
    if let Some(mut p3) = seg(&p0) {
        let _ = panicmon::catch(|| crate::readcheck::full_transcript(&mut p3));
        parents.push(("segment reader that has been read from", p3));
    }
    // a parent opened on a file that holds the movie header and fragments
    if let Some(w) = whole {
        if let Ok(Ok(pw)) = panicmon::catch(|| Mp4Reader::read_header(MonReader::plain(w.clone()), w.len() as u64)) {
            if pw.moov == p0.moov && pw.ftyp == p0.ftyp {
                parents.push(("reader of a file with header and fragments", pw));
            }
        }
    }
    for (what, p) in parents.iter() {
        rep.add("segment_opens_through_parents_with_history", 1);
        rep.cover_nt(hash_str(&format!("parent|{}", what)));
        match seg(p) {
            Some(mut r) => {
                let got = render(&mut r);
                if got != want {
                    let line = got.lines().zip(want.lines()).position(|(a, b)| a != b).unwrap_or(0);
                    rep.fail("C15", id, "segment_reader_depends_on_parent_history", json!({"file": name, "parent": what, "first_differing_line": line,
                        "through_this_parent": got.lines().nth(line).unwrap_or("").chars().take(300).collect::<String>(),
                        "through_init_reader": want.lines().nth(line).unwrap_or("").chars().take(300).collect::<String>()}));
                    break;
                }
            }
            None => {
                rep.fail("C15", id, "segment_reader_depends_on_parent_history", json!({"file": name, "parent": what, "through_this_parent": "does not open", "through_init_reader": "opens"}));
                break;
            }
        }
    }
    rep.end();
}

fn reader_case(id: &str, name: &str, bytes: &Rc<Vec<u8>>, init: &Option<Rc<Vec<u8>>>, nsched: u64, rng: &mut Rng, rep: &mut Report) {
    rep.begin(id);
    let ctl = crate::streams::Ctl::new();
    let mut long_lived = match open_ctl(bytes, init, ctl.clone()) {
        Some(m) => m,
        None => {
            rep.add("subjects_not_openable", 1);
            rep.end();
            return;
        }
    };
    // (c) opening the same bytes twice yields equal structures
    if let Some(second) = open(bytes, init) {
        let same = long_lived.ftyp == second.ftyp && long_lived.moov == second.moov && long_lived.moofs == second.moofs && long_lived.emsgs == second.emsgs && {
            let (a, b) = (long_lived.tracks(), second.tracks());
            a.len() == b.len() && a.iter().all(|(k, t)| b.get(k).map(|u| t.trak == u.trak && t.trafs == u.trafs && t.moof_offsets == u.moof_offsets && t.default_sample_duration == u.default_sample_duration).unwrap_or(false))
        };
        if !same {
            rep.fail("C15", id, "two_opens_differ", json!({"file": name}));
        }
        rep.add("double_opens_compared", 1);
    }
    let mut ids: Vec<u32> = long_lived.tracks().keys().cloned().collect();
    ids.sort();
    let mut track_pool = ids.clone();
    track_pool.push(0);
    track_pool.push(ids.iter().max().cloned().unwrap_or(0).wrapping_add(1));
    let counts: HashMap<u32, u32> = ids.iter().map(|t| (*t, long_lived.sample_count(*t).unwrap_or(0))).collect();
    // baseline cache: the answer of a fresh reader asked exactly once
    let mut fresh: HashMap<Call, String> = HashMap::new();
    let mut prev_kind = "start";
    let mut prev_ok = true;
    // the last read that returned a sample / the last read that did not, and the last call
    let mut last_ok: Option<(u32, u32)> = None;
    let mut last_bad: Option<(u32, u32)> = None;
    let mut last_call: Option<Call> = None;
    for step in 0..nsched {
        let mut t = *rng.pick(&track_pool);
        let n = counts.get(&t).cloned().unwrap_or(0);
        let mut sid = match rng.below(8) {
            0 => 0,
            1 => n.wrapping_add(1),
            2 => n.wrapping_add(2 + rng.below(3) as u32),
            3 => u32::MAX - rng.below(2) as u32,
            _ => 1 + rng.below(n.max(1) as u64) as u32,
        };
        // half of the steps are placed relative to the recent past (a cache, a remembered
        // position or a cursor would be keyed on exactly these): the successor / predecessor /
        // repetition of the last successful read, the neighbours of the last failed one
        let mode = rng.below(12);
        let mut patterned = false;
        match (mode, last_ok, last_bad) {
            (0 | 1, Some((lt, ls)), _) => { t = lt; sid = ls.wrapping_add(1); patterned = true; }
            (2, Some((lt, ls)), _) => { t = lt; sid = ls.wrapping_sub(1); patterned = true; }
            (3, Some((lt, ls)), _) => { t = lt; sid = ls; patterned = true; }
            (4, _, Some((lt, ls))) => { t = lt; sid = ls.wrapping_sub(1 + rng.below(2) as u32); patterned = true; }
            (5, _, Some((lt, ls))) => { t = lt; sid = ls; patterned = true; }
            _ => {}
        }
        let mut call = match rng.below(10) {
            0..=4 => Call::ReadSample(t, sid),
            5 | 6 => Call::SampleOffset(t, sid),
            7 => Call::SampleCount(t),
            8 => Call::TrackAccessors(t),
            _ => Call::MovieAccessors,
        };
        if patterned && rng.chance(3, 4) {
            call = Call::ReadSample(t, sid);
        }
        if mode == 6 {
            if let Some(c) = last_call {
                call = c;
            }
        }
        if patterned {
            rep.add("calls_placed_relative_to_recent_history", 1);
        }
        // one call in 25 meets a transient I/O error of the stream (a genuine Err from read or
        // seek at its first, second or third stream operation). Its own result is not compared
        // - a fresh reader has no such fault - but it is a "call that fails" of the history:
        // everything asked afterwards must still be answered as a fresh reader answers it.
        let inject = rng.chance(1, 25);
        if inject {
            ctl.fault_kind.set(crate::streams::FaultKind::Error);
            ctl.fault_fired.set(None);
            ctl.fault_at.set(Some(ctl.ops.get() + rng.below(3)));
        }
        let got = perform(&mut long_lived, call);
        if inject {
            ctl.fault_at.set(None);
            if ctl.fault_fired.get().is_some() {
                ctl.fault_fired.set(None);
                rep.add("calls_hit_by_an_injected_io_error", 1);
                if let Call::ReadSample(ct, cs) = call {
                    last_bad = Some((ct, cs));
                }
                last_call = Some(call);
                prev_kind = call.kind();
                prev_ok = false;
                continue;
            }
        }
        let want = match fresh.get(&call) {
            Some(w) => w.clone(),
            None => {
                let w = match open(bytes, init) {
                    Some(mut f) => perform(&mut f, call),
                    None => "UNOPENABLE".into(),
                };
                fresh.insert(call, w.clone());
                w
            }
        };
        let ok_now = !(got.starts_with("err(") || got.starts_with("Err(") || got == "none");
        rep.cover_nt(hash_str(&format!("{}:{}->{}:{}", prev_kind, prev_ok, call.kind(), ok_now)));
        if got != want {
            rep.fail("C15", id, "result_depends_on_history", json!({"file": name, "step": step, "call": format!("{:?}", call), "previous_call_kind": prev_kind, "long_lived_reader": got.chars().take(220).collect::<String>(), "fresh_reader": want.chars().take(220).collect::<String>()}));
            break;
        }
        prev_kind = call.kind();
        prev_ok = ok_now;
        last_call = Some(call);
        if let Call::ReadSample(ct, cs) = call {
            if got.starts_with("some(") {
                if prev_bad_then_successor(last_bad, last_ok, ct, cs) {
                    rep.add("successor_of_last_good_read_right_after_failed_reads", 1);
                }
                last_ok = Some((ct, cs));
            } else {
                last_bad = Some((ct, cs));
            }
        }
    }
    rep.add("scheduled_calls", nsched);
    rep.add("distinct_calls_with_fresh_baseline", fresh.len() as u64);
    rep.end();
}

fn mux_hash(h: &muxdrive::History) -> Option<u64> {
    let run = muxdrive::run_history(h, MonWriter::plain(), |_, _, _, _| {});
    if !run.ended_ok {
        return None;
    }
    run.writer.map(|w| hash64(&w.buf) ^ (w.buf.len() as u64).rotate_left(40))
}

fn history_for(seed: u64, i: u64) -> muxdrive::History {
    let mut rng = Rng::derive(seed, 0xC15, i);
    let (mt, ms, mz) = if i % 7 == 0 { (4, 80, 500) } else { (3, 12, 60) };
    muxdrive::gen_history(&mut rng, mt, ms, mz, true)
}

pub fn run(args: &Args) -> i32 {
    // child mode: print the output hashes of a range of histories and exit (used for the
    // separate-process determinism comparison)
    if let Some(pos) = args.extra.iter().position(|x| x == "--mux-hashes") {
        let lo: u64 = args.extra.get(pos + 1).and_then(|x| x.parse().ok()).unwrap_or(0);
        let hi: u64 = args.extra.get(pos + 2).and_then(|x| x.parse().ok()).unwrap_or(0);
        for i in lo..hi {
            let h = history_for(args.seed, i);
            println!("{} {:?}", i, mux_hash(&h));
        }
        return 0;
    }
    let mut rep = Report::new(args, true);
    let mut idx = 0u64;
    // ---- (a) + (c): reader schedules over valid files and over damaged ones (failing regions)
    let seeds = corpus(args.seed, false);
    let reps = args.scale(40, 400);
    for (si, s) in seeds.iter().enumerate() {
        for r in 0..reps {
            idx += 1;
            if !args.mine(idx) {
                continue;
            }
            let id = format!("sched:{}:{}", si, r);
            if !args.want(&id) {
                continue;
            }
            let mut rng = Rng::derive(args.seed, 0x15A + si as u64, r);
            // r == 0: the valid file; otherwise a damaged variant (truncated mdat, havoc) so that
            // failing calls are part of the schedule
            let bytes = if r == 0 {
                s.bytes.clone()
            } else if r % 2 == 1 {
                let cut = s.bytes.len() - 1 - rng.usize_below((s.bytes.len() / 3).max(1));
                s.bytes[..cut].to_vec()
            } else {
                mutate_havoc(s, &seeds, &mut rng).0
            };
            let init = s.init.as_ref().map(|i| Rc::new(i.clone()));
            let n = 200 + rng.below(1800);
            reader_case(&id, &s.name, &Rc::new(bytes), &init, n, &mut rng, &mut rep);
            if rep.too_many_fails() {
                return rep.finish();
            }
        }
        rep.note("files", &s.name);
    }
    // ---- (d) segment readers do not depend on their parent's history
    for (si, s) in seeds.iter().enumerate() {
        if let Some(i) = &s.init {
            idx += 1;
            let id = format!("parent:{}", si);
            if args.mine(idx) && args.want(&id) {
                let mut whole = i.clone();
                whole.extend_from_slice(&s.bytes);
                parent_history_case(&id, &s.name, &Rc::new(i.clone()), &Rc::new(s.bytes.clone()), Some(&Rc::new(whole)), &mut rep);
            }
        }
    }
    let ng = args.scale(40_000, 600_000);
    for g in 0..ng {
        idx += 1;
        if !args.mine(idx) {
            continue;
        }
        let id = format!("parentgen:{}", g);
        if !args.want(&id) {
            continue;
        }
        let mut rng = Rng::derive(args.seed, 0x15D, g);
        let same_trex = rng.bool();
        let fm = crate::model::gen_frag_movie(&mut rng, 3, 2, 3, same_trex);
        let b = crate::model::build_fragmented(&fm);
        parent_history_case(&id, "generated fragmented movie", &Rc::new(b.init.clone()), &Rc::new(b.segment.clone()), Some(&Rc::new(b.whole.bytes.clone())), &mut rep);
        if rep.too_many_fails() {
            return rep.finish();
        }
    }
    // ---- (e) opening the same bytes many times: every open builds new hash maps (new random
    // state), so an answer that depends on map iteration order differs between opens. Subjects:
    // fragmented movies with >= 2 tracks in which one track fragment names a track the movie
    // does not have (the one place where the reader has to look a track up by a foreign key),
    // and the unmodified movies.
    let ne = args.scale(6_000, 100_000);
    for g in 0..ne {
        idx += 1;
        if !args.mine(idx) {
            continue;
        }
        let id = format!("reopen:{}", g);
        if !args.want(&id) {
            continue;
        }
        rep.begin(&id);
        let mut rng = Rng::derive(args.seed, 0x15E, g);
        let fm = crate::model::gen_frag_movie(&mut rng, 3, 3, 3, true);
        let b = crate::model::build_fragmented(&fm);
        let mut bytes = b.whole.bytes.clone();
        let foreign = g % 2 == 0;
        if g % 4 == 1 {
            // a plain movie with 2-3 tracks whose movie header carries no duration (0): an
            // accessor that falls back to "some track" must still pick the same one every time
            let m = crate::model::gen_movie(&mut rng, 3, 6, 16);
            let fl = crate::model::gen_file_layout(&mut rng, &m);
            let built = crate::model::build_plain(&m, &fl, &|_| {});
            bytes = built.ser.bytes.clone();
            for f in built.ser.fields.iter().filter(|f| f.path.contains("mvhd") && f.path.contains(".duration#")) {
                crate::hostile::put(&mut bytes, f.off, f.width, 0);
            }
        } else if foreign {
            // the track_ID field of one tfhd
            let cands: Vec<&crate::refenc::Field> = b.whole.fields.iter().filter(|f| f.path.contains("tfhd") && f.path.contains(".track_ID#")).collect();
            if g % 8 == 2 {
                // every track fragment names a different track the movie does not have: which
                // one the open error reports must not depend on the order of a hash map either
                for (k, f) in cands.iter().enumerate() {
                    crate::hostile::put(&mut bytes, f.off, f.width, 7000 + 13 * k as u64);
                }
                if cands.len() >= 2 {
                    rep.add("subjects_with_several_distinct_foreign_track_ids", 1);
                }
            } else if let Some(f) = cands.get(rng.usize_below(cands.len().max(1))) {
                crate::hostile::put(&mut bytes, f.off, f.width, *rng.pick(&[0u64, 7777, 0xFFFF_FFFF, 0x8000_0000]));
            }
        }
        let data = Rc::new(bytes);
        let render_open = |data: &Rc<Vec<u8>>| -> String {
            match panicmon::catch(|| Mp4Reader::read_header(MonReader::plain(data.clone()), data.len() as u64)) {
                Ok(Ok(mut r)) => match panicmon::catch(|| crate::readcheck::full_transcript(&mut r)) {
                    Ok(t) => {
                        let mut ids: Vec<u32> = r.tracks().keys().cloned().collect();
                        ids.sort();
                        let mut s = String::new();
                        for t in ids {
                            let tr = &r.tracks()[&t];
                            s.push_str(&format!("t{} trafs={} moofs={:?}\n", t, tr.trafs.len(), tr.moof_offsets));
                        }
                        s + &t
                    }
                    Err(p) => format!("PANIC {}: {}", p.site(), p.msg),
                },
                Ok(Err(e)) => format!("open error: {:?}: {}", std::mem::discriminant(&e), e),
                Err(p) => format!("PANIC {}: {}", p.site(), p.msg),
            }
        };
        let first = render_open(&data);
        for k in 1..8 {
            let again = render_open(&data);
            if again != first {
                let line = again.lines().zip(first.lines()).position(|(a, b)| a != b).unwrap_or(0);
                rep.fail("C15", &id, "two_opens_differ", json!({"tracks": fm.movie.tracks.len(), "foreign_track_id_in_a_tfhd": foreign, "open": k,
                    "this_open": again.lines().nth(line).unwrap_or("").chars().take(200).collect::<String>(), "first_open": first.lines().nth(line).unwrap_or("").chars().take(200).collect::<String>()}));
                break;
            }
        }
        rep.add("subjects_opened_eight_times", 1);
        rep.cover_nt(hash_str(&format!("reopen|{}|{}|{}", foreign, fm.movie.tracks.len(), first.starts_with("open error"))));
        rep.end();
        if rep.too_many_fails() {
            return rep.finish();
        }
    }
    // ---- (b) mux determinism: twice in this process, and once more in a separate process
    let nh = args.scale(400_000, 6_000_000);
    let per = nh / args.nshards;
    let lo = per * args.shard;
    let hi = lo + per;
    let mut mine: Vec<(u64, Option<u64>)> = Vec::new();
    for i in lo..hi {
        let id = format!("mux:{}", i);
        if !args.want(&id) {
            continue;
        }
        rep.begin(&id);
        let h = history_for(args.seed, i);
        let a = mux_hash(&h);
        let b = mux_hash(&h);
        if a != b {
            rep.fail("C15", &id, "mux_twice_in_process_differs", json!({"history": h.short()}));
        }
        rep.cover_nt(hash_str(&muxdrive::shape(&h)));
        rep.add("mux_pairs_compared_in_process", 1);
        mine.push((i, a));
        rep.end();
    }
    // "byte-identical" whenever the run happens: the first 300 histories of this shard once more
    // after the wall clock has moved on by more than a second (a creation / modification time
    // taken from the clock would be the same in any two back-to-back runs)
    if args.only.is_none() && !mine.is_empty() {
        rep.begin("mux:later");
        std::thread::sleep(std::time::Duration::from_millis(1100));
        for (i, a) in mine.iter().take(300) {
            let again = mux_hash(&history_for(args.seed, *i));
            if &again != a {
                rep.fail("C15", &format!("mux:{}", i), "mux_at_a_later_time_differs", json!({"history": history_for(args.seed, *i).short()}));
                break;
            }
            rep.add("mux_outputs_compared_across_a_second_boundary", 1);
        }
        rep.end();
    }
    if args.only.is_none() && !mine.is_empty() {
        rep.begin("mux:separate_process");
        match std::env::current_exe() {
            Ok(exe) => {
                let out = std::process::Command::new(exe)
                    .args(["C15", "--seed", &args.seed.to_string(), "--out", &args.out, "--mux-hashes", &lo.to_string(), &hi.to_string()])
                    .output();
                match out {
                    Ok(o) if o.status.success() => {
                        let text = String::from_utf8_lossy(&o.stdout).to_string();
                        let mut seen = 0u64;
                        let mine_map: std::collections::HashMap<u64, Option<u64>> = mine.iter().cloned().collect();
                        for line in text.lines() {
                            let mut it = line.splitn(2, ' ');
                            let i: u64 = it.next().and_then(|x| x.parse().ok()).unwrap_or(u64::MAX);
                            let hs = it.next().unwrap_or("");
                            if let Some(a) = mine_map.get(&i) {
                                seen += 1;
                                if format!("{:?}", a) != hs {
                                    rep.fail("C15", &format!("mux:{}", i), "mux_in_separate_process_differs", json!({"history": history_for(args.seed, i).short(), "this_process": format!("{:?}", a), "other_process": hs}));
                                }
                            }
                        }
                        rep.add("mux_outputs_compared_across_processes", seen);
                    }
                    Ok(o) => rep.note("child_process_problem", &format!("exit {:?}", o.status.code())),
                    Err(e) => rep.note("child_process_problem", &e.to_string()),
                }
            }
            Err(e) => rep.note("child_process_problem", &e.to_string()),
        }
        rep.end();
    }
    if args.shard == 0 {
        rep.sample(json!({"reader_schedule": "200-2000 random calls (read_sample / sample_offset / sample_count / accessors; track ids valid, 0, max+1; sample ids 0, 1..N, N+1.., 2^32-1) on one reader; each compared with a fresh reader asked once"}));
        rep.sample(json!({"mux_history": history_for(args.seed, 0).short()}));
    }
    rep.finish()
}
