//! C12 — the parse result is independent of physical layout choices (metamorphic): every
//! layout variant of a logical movie must open to the same tracks, accessors, metadata and
//! per-sample results, with offsets shifted exactly by the layout change.

use crate::layoutx::{self, Xf};
use crate::model::*;
use crate::panicmon;
use crate::prng::{hash_str, Rng};
use crate::readcheck::*;
use crate::refenc::BoxT;
use crate::report::{Args, Report};
use crate::streams::MonReader;
use mp4::{Metadata, Mp4Reader};
use serde_json::json;
use std::rc::Rc;

/// Everything the accessors report that does not depend on byte positions.
pub fn transcript<R: std::io::Read + std::io::Seek>(mp4: &Mp4Reader<R>) -> String {
    let mut s = String::new();
    s.push_str(&format!(
        "brand={:?} minor={} compat={:?} ts={} dur={:?} frag={}\n",
        mp4.major_brand().value,
        mp4.minor_version(),
        mp4.compatible_brands().iter().map(|b| b.value).collect::<Vec<_>>(),
        mp4.timescale(),
        mp4.duration(),
        mp4.is_fragmented()
    ));
    let md = mp4.metadata();
    s.push_str(&format!("title={:?} year={:?} poster={:?} summary={:?}\n", md.title(), md.year(), md.poster().map(|p| (p.len(), crate::prng::hash64(p))), md.summary()));
    let mut ids: Vec<u32> = mp4.tracks().keys().cloned().collect();
    ids.sort();
    for id in ids {
        let t = &mp4.tracks()[&id];
        s.push_str(&format!(
            "track {} type={:?} media={:?} box={:?} {}x{} lang={} ts={} dur={:?} n={} br={} fr={:.3} vp={:?} sps={:?} pps={:?} ap={:?} fi={:?} cc={:?}\n",
            t.track_id(),
            t.track_type().ok(),
            t.media_type().ok(),
            t.box_type().ok().map(|b| b.value),
            t.width(),
            t.height(),
            t.language(),
            t.timescale(),
            t.duration(),
            t.sample_count(),
            t.bitrate(),
            t.frame_rate(),
            t.video_profile().ok(),
            t.sequence_parameter_set().ok().map(|x| x.to_vec()),
            t.picture_parameter_set().ok().map(|x| x.to_vec()),
            t.audio_profile().ok(),
            t.sample_freq_index().ok(),
            t.channel_config().ok()
        ));
    }
    s
}

fn apply_all(top: &mut Vec<BoxT>, xs: &[Xf]) {
    for x in xs {
        layoutx::apply(top, x);
    }
}

struct Subject {
    plain: Option<(Movie, FileLayout)>,
    frag: Option<FragMovie>,
}

fn canonical_tree(sub: &Subject) -> Vec<BoxT> {
    // the tree the transformations are enumerated on
    let captured = std::cell::RefCell::new(Vec::new());
    if let Some((m, fl)) = &sub.plain {
        let _ = build_plain(m, fl, &|top| {
            *captured.borrow_mut() = top.clone();
        });
    }
    captured.into_inner()
}

fn eval_plain(id: &str, m: &Movie, fl: &FileLayout, xs: &[Xf], canon: &str, rep: &mut Report) -> bool {
    rep.begin(id);
    if rep.verbose {
        eprintln!("transforms: {:?}", xs);
    }
    let built = build_plain(m, fl, &|top| apply_all(top, xs));
    let bytes = Rc::new(built.ser.bytes);
    if rep.verbose {
        if let Ok(p) = std::env::var("VERIF_DUMP") {
            let _ = std::fs::write(&p, &bytes[..]);
        }
    }
    let mut fails = Vec::new();
    match open(&bytes) {
        Ok(mut mp4) => {
            let ids: Vec<u32> = m.tracks.iter().map(|t| t.id).collect();
            fails.extend(check_samples(&mut mp4, &ids, &built.expect, &Opts { compare_sync: true, bytes_from_file: false }));
            match panicmon::catch(|| transcript(&mp4)) {
                Ok(t) => {
                    if t != canon {
                        fails.push(("accessors_differ".into(), json!({"canonical": canon, "variant": t})));
                    }
                }
                Err(p) => fails.push(("reader_panic".into(), json!({"site": p.site(), "msg": p.msg}))),
            }
        }
        Err(e) => fails.push(e),
    }
    for x in xs {
        let key = format!("{}|{}", x.kind(), x.target());
        rep.cover_nt(hash_str(&key));
        rep.note("transform_kinds", x.kind());
    }
    rep.add("variants", 1);
    let ok = fails.is_empty();
    if let Some((rule, detail)) = fails.first() {
        rep.fail("C12", id, rule, json!({"transforms": format!("{:?}", xs), "detail": detail, "more": fails.len() - 1, "file_bytes": bytes.len()}));
    }
    rep.end();
    ok
}

fn frag_xf(xs: &[Xf]) -> (Vec<Xf>, Vec<Xf>) {
    // split into transformations of the init segment and of the movie fragments
    let mut init = Vec::new();
    let mut moof = Vec::new();
    for x in xs {
        let target = match x {
            Xf::InsertTop { .. } => "top".to_string(),
            Xf::InsertChild { path, .. } | Xf::Permute { path, .. } | Xf::Large { path } | Xf::Spare { path, .. } | Xf::SpareAtEnd { path, .. } => path.clone(),
        };
        if target.starts_with("moof#") || target.starts_with("mdat#") {
            moof.push(x.clone());
        } else {
            init.push(x.clone());
        }
    }
    (init, moof)
}

fn eval_frag(id: &str, fm: &FragMovie, xs: &[Xf], canon: &(String, String), rep: &mut Report) -> bool {
    rep.begin(id);
    if rep.verbose {
        eprintln!("transforms: {:?}", xs);
    }
    let (ix, mx) = frag_xf(xs);
    let b = build_fragmented_x(fm, &|top| apply_all(top, &ix), &|bx| {
        let mut v = vec![bx.clone()];
        apply_all(&mut v, &mx);
        // keep only the (possibly transformed) original box: top-level insertions are not
        // applied inside the fragment builder
        if let Some(nb) = v.into_iter().find(|c| c.typ == bx.typ) {
            *bx = nb;
        }
    });
    let ids: Vec<u32> = fm.movie.tracks.iter().map(|t| t.id).collect();
    let opts = Opts { compare_sync: false, bytes_from_file: false };
    let mut fails = Vec::new();
    let whole = Rc::new(b.whole.bytes.clone());
    match open(&whole) {
        Ok(mut mp4) => {
            for (r, d) in check_samples(&mut mp4, &ids, &b.expect_whole, &opts) {
                fails.push((format!("stream:{}", r), d));
            }
            match panicmon::catch(|| transcript(&mp4)) {
                Ok(t) => {
                    if t != canon.0 {
                        fails.push(("stream:accessors_differ".into(), json!({"canonical": canon.0, "variant": t})));
                    }
                }
                Err(p) => fails.push(("reader_panic".into(), json!({"site": p.site(), "msg": p.msg}))),
            }
        }
        Err((r, d)) => fails.push((format!("stream:{}", r), d)),
    }
    let init = Rc::new(b.init.clone());
    match open(&init) {
        Ok(base) => {
            let seg = Rc::new(b.segment.clone());
            let len = seg.len() as u64;
            match panicmon::catch(|| base.read_fragment_header(MonReader::plain(seg.clone()), len)) {
                Ok(Ok(mut mp4)) => {
                    for (r, d) in check_samples(&mut mp4, &ids, &b.expect_segment, &opts) {
                        fails.push((format!("segment:{}", r), d));
                    }
                    match panicmon::catch(|| transcript(&mp4)) {
                        Ok(t) => {
                            if t != canon.1 {
                                fails.push(("segment:accessors_differ".into(), json!({"canonical": canon.1, "variant": t})));
                            }
                        }
                        Err(p) => fails.push(("reader_panic".into(), json!({"site": p.site(), "msg": p.msg}))),
                    }
                }
                Ok(Err(e)) => fails.push(("segment:open_error".into(), json!({"err": e.to_string()}))),
                Err(p) => fails.push(("segment:reader_panic".into(), json!({"site": p.site(), "msg": p.msg}))),
            }
        }
        Err((r, d)) => fails.push((format!("init:{}", r), d)),
    }
    for x in xs {
        rep.cover_nt(hash_str(&format!("{}|{}", x.kind(), x.target())));
        rep.note("transform_kinds", x.kind());
    }
    rep.add("variants", 1);
    let ok = fails.is_empty();
    if let Some((rule, detail)) = fails.first() {
        rep.fail("C12", id, rule, json!({"transforms": format!("{:?}", xs), "detail": detail, "more": fails.len() - 1, "movie": crate::props::c09::describe(fm)}));
    }
    rep.end();
    ok
}

fn canon_frag(fm: &FragMovie) -> Option<(String, String)> {
    let b = build_fragmented(fm);
    let whole = Rc::new(b.whole.bytes.clone());
    let a = open(&whole).ok().map(|m| transcript(&m))?;
    let init = Rc::new(b.init.clone());
    let base = open(&init).ok()?;
    let seg = Rc::new(b.segment.clone());
    let len = seg.len() as u64;
    let r = base.read_fragment_header(MonReader::plain(seg), len).ok()?;
    Some((a, transcript(&r)))
}

pub fn run(args: &Args) -> i32 {
    let mut rep = Report::new(args, true);
    let nmovies = args.scale(3_000, 40_000);
    for i in 0..nmovies {
        if !args.mine(i) {
            continue;
        }
        let mut rng = Rng::derive(args.seed, 0xC12, i);
        if i % 3 != 2 {
            // ---- non-fragmented subject
            let mut m = gen_movie(&mut rng, 2, if i % 8 == 0 { 60 } else { 9 }, 24);
            if rng.bool() {
                let mut t = crate::props::c18::gen_tags(&mut rng, true);
                // the QuickTime form (no version/flags word) is only recognisable with hdlr first
                t.meta_fullbox = true;
                m.tags = Some(t);
            }
            let mut fl = gen_file_layout(&mut rng, &m);
            fl.mdat_to_end = false;
            let sub = Subject { plain: Some((m.clone(), fl.clone())), frag: None };
            let tree = canonical_tree(&sub);
            let canon = {
                let b = build_plain(&m, &fl, &|_| {});
                match open(&Rc::new(b.ser.bytes)) {
                    Ok(mp4) => transcript(&mp4),
                    Err(_) => continue,
                }
            };
            let singles = layoutx::enumerate(&tree, &mut rng);
            rep.add("single_transforms_enumerated", singles.len() as u64);
            for (k, x) in singles.iter().enumerate() {
                let id = format!("plain:{}:single:{}", i, k);
                if !args.want(&id) {
                    continue;
                }
                eval_plain(&id, &m, &fl, std::slice::from_ref(x), &canon, &mut rep);
                if rep.too_many_fails() {
                    return rep.finish();
                }
            }
            for c in 0..args.scale(12, 40) {
                let id = format!("plain:{}:combo:{}", i, c);
                if !args.want(&id) {
                    continue;
                }
                // a generator of its own per case, so that `--only` regenerates exactly this case
                let mut rng = Rng::derive(args.seed, 0xC12C, (i << 8) | c);
                let k = 2 + rng.usize_below(5);
                // paths refer to the canonical tree; inserted siblings do not rename them
                let mut xs: Vec<Xf> = (0..k).map(|_| singles[rng.usize_below(singles.len())].clone()).collect();
                // apply insertions late so that slot numbers stay meaningful, moves last
                xs.sort_by_key(|x| match x {
                    Xf::InsertTop { .. } | Xf::InsertChild { .. } => 1u8,
                    Xf::SpareAtEnd { .. } => 2,
                    _ => 0,
                });
                eval_plain(&id, &m, &fl, &xs, &canon, &mut rep);
                if rep.too_many_fails() {
                    return rep.finish();
                }
            }
            if rep.want_sample() && args.shard == 0 {
                rep.sample(json!({"subject": format!("plain:{}", i), "movie": crate::props::c03::describe(&m, &fl), "single_transforms": singles.len(), "examples": singles.iter().take(5).map(|x| format!("{:?}", x)).collect::<Vec<_>>()}));
            }
        } else {
            // ---- fragmented subject
            let fm = gen_frag_movie(&mut rng, 3, 2, 5, true);
            let canon = match canon_frag(&fm) {
                Some(c) => c,
                None => continue,
            };
            // enumerate on the init tree and on one moof tree
            let init_tree = std::cell::RefCell::new(Vec::new());
            let moof_tree = std::cell::RefCell::new(Vec::new());
            let _ = build_fragmented_x(&fm, &|top| *init_tree.borrow_mut() = top.clone(), &|b| {
                if &b.typ == b"moof" && moof_tree.borrow().is_empty() {
                    moof_tree.borrow_mut().push(b.clone());
                }
            });
            let mut singles = layoutx::enumerate(&init_tree.borrow(), &mut rng);
            let ms: Vec<Xf> = layoutx::enumerate(&moof_tree.borrow(), &mut rng).into_iter().filter(|x| !matches!(x, Xf::InsertTop { .. })).collect();
            singles.extend(ms);
            singles.push(Xf::Large { path: "mdat#0".into() });
            rep.add("single_transforms_enumerated", singles.len() as u64);
            for (k, x) in singles.iter().enumerate() {
                let id = format!("frag:{}:single:{}", i, k);
                if !args.want(&id) {
                    continue;
                }
                eval_frag(&id, &fm, std::slice::from_ref(x), &canon, &mut rep);
                if rep.too_many_fails() {
                    return rep.finish();
                }
            }
            for c in 0..args.scale(12, 40) {
                let id = format!("frag:{}:combo:{}", i, c);
                if !args.want(&id) {
                    continue;
                }
                // a generator of its own per case, so that `--only` regenerates exactly this case
                let mut rng = Rng::derive(args.seed, 0xC12C, (i << 8) | c);
                let k = 2 + rng.usize_below(5);
                // paths refer to the canonical tree; inserted siblings do not rename them
                let mut xs: Vec<Xf> = (0..k).map(|_| singles[rng.usize_below(singles.len())].clone()).collect();
                // apply insertions late so that slot numbers stay meaningful, moves last
                xs.sort_by_key(|x| match x {
                    Xf::InsertTop { .. } | Xf::InsertChild { .. } => 1u8,
                    Xf::SpareAtEnd { .. } => 2,
                    _ => 0,
                });
                eval_frag(&id, &fm, &xs, &canon, &mut rep);
                if rep.too_many_fails() {
                    return rep.finish();
                }
            }
        }
    }
    rep.finish()
}
