//! C06 (no panic / abort), C07 (termination, linear work), C08 (memory bounded by input
//! length): one hostile corpus, three monitors.

use crate::alloc;
use crate::hostile::*;
use crate::prng::{hash_str, Rng};
use crate::report::{hex_trunc, Args, Report};
use serde_json::json;
use std::rc::Rc;

struct Ctx<'a> {
    args: &'a Args,
    rep: &'a mut Report,
    prop: String,
    inits: Vec<Rc<Vec<u8>>>,
    cfg: SweepCfg,
}

const OPS_A: u64 = 4_000;
const OPS_B: u64 = 16;
const BYTES_A: u64 = 1 << 20;
const BYTES_B: u64 = 16;
const CPU_A_NS: u64 = 50_000_000;
const CPU_B_NS: u64 = 2_000;
const MEM_A: u64 = 64 << 10;
const MEM_PEAK_B: u64 = 64;
const MEM_REQ_B: u64 = 16;

fn judge(cx: &mut Ctx, id: &str, bytes: &Rc<Vec<u8>>, desc: &str, inits: &[Rc<Vec<u8>>]) {
    cx.rep.begin(id);
    if cx.rep.verbose {
        eprintln!("mutation: {}\ninput ({} bytes): {}", desc, bytes.len(), hex_trunc(bytes, 6000));
    }
    let n = bytes.len() as u64;
    let obs = sweep(bytes, inits, &cx.cfg);
    if cx.rep.verbose {
        eprintln!("outcome: {}", obs.outcome);
        for c in obs.calls.iter().take(6) {
            eprintln!("  call {:24} ops={:8} bytes={:9} cpu_us={:8} peak={:9} max_req={:9} budget_hit={}", c.call, c.ops, c.bytes, c.cpu_ns / 1000, c.peak, c.max_req, c.budget_hit);
        }
    }
    cx.rep.note("outcomes", &obs.outcome.chars().take(90).collect::<String>());
    if obs.opened {
        cx.rep.add("inputs_opened_ok", 1);
    }
    cx.rep.add("accessor_calls", obs.accessor_calls);
    match cx.prop.as_str() {
        "C06" => {
            if let Some((call, p)) = obs.panics.first() {
                cx.rep.note("panic_sites", &p.site());
                cx.rep.fail("C06", id, "panic", json!({"call": call, "site": p.site(), "msg": p.msg, "mutation": desc, "input_len": n, "more": obs.panics.len() - 1, "input_hex": hex_trunc(bytes, 3000)}));
            }
        }
        "C07" => {
            for c in &obs.calls {
                let on = c.ops as f64 / (n.max(1)) as f64;
                cx.rep.max("max_ops_per_byte", if n >= 256 { on } else { 0.0 });
                cx.rep.max("max_bytes_per_byte", if n >= 256 { c.bytes as f64 / n as f64 } else { 0.0 });
                cx.rep.max("max_cpu_ns_per_call", c.cpu_ns as f64);
                if c.budget_hit || c.ops > OPS_A + OPS_B * n || c.bytes > BYTES_A + BYTES_B * n {
                    cx.rep.fail("C07", id, "work_budget_exceeded", json!({"call": c.call, "ops": c.ops, "bytes": c.bytes, "n": n, "ops_budget": OPS_A + OPS_B * n, "bytes_budget": BYTES_A + BYTES_B * n, "mutation": desc, "input_hex": hex_trunc(bytes, 3000)}));
                    break;
                }
            }
            // CPU: only when reproduced twice more (minimum over three runs)
            let limit = CPU_A_NS + CPU_B_NS * n;
            if let Some((ci, c)) = obs.calls.iter().enumerate().find(|(_, c)| c.cpu_ns > limit) {
                let mut best = c.cpu_ns;
                for _ in 0..2 {
                    let o2 = sweep(bytes, inits, &cx.cfg);
                    if let Some(c2) = o2.calls.get(ci) {
                        best = best.min(c2.cpu_ns);
                    } else {
                        best = 0;
                    }
                }
                if best > limit {
                    cx.rep.fail("C07", id, "cpu_time_exceeded", json!({"call": c.call, "cpu_ms_min_of_3": best / 1_000_000, "limit_ms": limit / 1_000_000, "n": n, "mutation": desc, "input_hex": hex_trunc(bytes, 3000)}));
                }
            }
            // a panic inside the reader is not C07's business, but a stack overflow / hang would
            // kill the process and is attributed through the journal
        }
        _ => {
            for c in &obs.calls {
                if n >= 256 {
                    cx.rep.max("max_peak_per_byte", c.peak as f64 / n as f64);
                    cx.rep.max("max_request_per_byte", c.max_req as f64 / n as f64);
                }
                cx.rep.max("max_peak_bytes", c.peak as f64);
                if c.peak > MEM_A + MEM_PEAK_B * n || c.max_req > MEM_A + MEM_REQ_B * n {
                    cx.rep.fail("C08", id, "allocation_exceeds_linear_bound", json!({"call": c.call, "peak": c.peak, "largest_request": c.max_req, "n": n, "peak_bound": MEM_A + MEM_PEAK_B * n, "request_bound": MEM_A + MEM_REQ_B * n, "mutation": desc, "input_hex": hex_trunc(bytes, 3000)}));
                    break;
                }
            }
        }
    }
    cx.rep.end();
}

fn run_seed_cases(cx: &mut Ctx, seeds: &[Seed], idx: &mut u64) -> bool {
    let thorough = cx.args.thorough();
    for (si, seed) in seeds.iter().enumerate() {
        let inits: Vec<Rc<Vec<u8>>> = match &seed.init {
            Some(i) => vec![Rc::new(i.clone())],
            None => cx.inits.clone(),
        };
        // the unmodified seed itself
        *idx += 1;
        if cx.args.mine(*idx) && cx.args.want(&format!("s{}:orig", si)) {
            let b = Rc::new(seed.bytes.clone());
            judge(cx, &format!("s{}:orig", si), &b, &format!("unmodified seed {}", seed.name), &inits);
        }
        // ---- single substitutions
        let mut all: Vec<(usize, usize)> = Vec::new();
        for (fi, f) in seed.fields.iter().enumerate() {
            let nv = seed.values_for(f).len();
            for vi in 0..nv {
                all.push((fi, vi));
            }
        }
        let total = all.len();
        let take = if thorough { total } else { total.min(if seed.bytes.len() > 20_000 { 800 } else { 4000 }) };
        let mut rng = Rng::derive(cx.args.seed, 0x51, si as u64);
        if take < total {
            rng.shuffle(&mut all);
            // the quick tier samples, but the extremes of EVERY field (0, max-1, max) are always
            // substituted, whatever the seed: overflow sites must not depend on luck
            let mut extremes: Vec<(usize, usize)> = Vec::new();
            for (fi, f) in seed.fields.iter().enumerate() {
                let vals = seed.values_for(f);
                let w = (f.width * 8) as u32;
                let max = if w >= 64 { u64::MAX } else { (1u64 << w) - 1 };
                for (vi, v) in vals.iter().enumerate() {
                    if *v == 0 || *v == max || *v == max - 1 {
                        extremes.push((fi, vi));
                    }
                }
            }
            cx.rep.add("extreme_substitutions_always_run", extremes.len() as u64);
            extremes.extend(all.iter().take(take).cloned());
            all = extremes;
        }
        let take = if thorough { total } else { all.len() };
        cx.rep.add("single_substitutions_possible", total as u64);
        for (fi, vi) in all.iter().take(take) {
            *idx += 1;
            if !cx.args.mine(*idx) {
                continue;
            }
            let id = format!("s{}:single:{}:{}", si, fi, vi);
            if !cx.args.want(&id) {
                continue;
            }
            if let Some((b, m)) = mutate_single(seed, *fi, *vi) {
                for c in &m.cover {
                    cx.rep.cover_nt(hash_str(c));
                }
                judge(cx, &id, &Rc::new(b), &format!("{}: {}", seed.name, m.desc), &inits);
                if cx.rep.want_sample() && cx.args.shard == 0 {
                    cx.rep.sample(json!({"case": id, "seed_file": seed.name, "mutation": m.desc}));
                }
            }
            if cx.rep.too_many_fails() {
                return false;
            }
        }
        // ---- directed pairs: a box's own size (and its ancestors') together with its count
        for (k, (b, m)) in size_count_cases(seed).into_iter().enumerate() {
            *idx += 1;
            if !cx.args.mine(*idx) {
                continue;
            }
            let id = format!("s{}:szcnt:{}", si, k);
            if !cx.args.want(&id) {
                continue;
            }
            for c in &m.cover {
                cx.rep.cover_nt(hash_str(c));
            }
            cx.rep.add("size_and_count_pairs", 1);
            judge(cx, &id, &Rc::new(b), &format!("{}: {}", seed.name, m.desc), &inits);
            if cx.rep.too_many_fails() {
                return false;
            }
        }
        // ---- directed pairs: a sample size together with an offset, both at extremes
        for (k, (b, m)) in size_offset_cases(seed).into_iter().enumerate() {
            *idx += 1;
            if !cx.args.mine(*idx) {
                continue;
            }
            let id = format!("s{}:szoff:{}", si, k);
            if !cx.args.want(&id) {
                continue;
            }
            for c in &m.cover {
                cx.rep.cover_nt(hash_str(c));
            }
            cx.rep.add("size_and_offset_pairs", 1);
            judge(cx, &id, &Rc::new(b), &format!("{}: {}", seed.name, m.desc), &inits);
            if cx.rep.too_many_fails() {
                return false;
            }
        }
        // ---- pairs and havoc
        let np = if thorough { 8000 } else { 3000 };
        for k in 0..np {
            *idx += 1;
            if !cx.args.mine(*idx) {
                continue;
            }
            let id = format!("s{}:pair:{}", si, k);
            if !cx.args.want(&id) {
                continue;
            }
            let mut rng = Rng::derive(cx.args.seed, 0x52 + si as u64 * 7, k);
            if let Some((b, m)) = mutate_pair(seed, &mut rng) {
                for c in &m.cover {
                    cx.rep.cover_nt(hash_str(c));
                }
                judge(cx, &id, &Rc::new(b), &format!("{}: {}", seed.name, m.desc), &inits);
            }
            if cx.rep.too_many_fails() {
                return false;
            }
        }
        let nh = if thorough { 16000 } else { 6000 };
        for k in 0..nh {
            *idx += 1;
            if !cx.args.mine(*idx) {
                continue;
            }
            let id = format!("s{}:havoc:{}", si, k);
            if !cx.args.want(&id) {
                continue;
            }
            let mut rng = Rng::derive(cx.args.seed, 0x53 + si as u64 * 11, k);
            let (b, m) = mutate_havoc(seed, seeds, &mut rng);
            cx.rep.cover(hash_str("havoc"));
            judge(cx, &id, &Rc::new(b), &format!("{}: {}", seed.name, m.desc), &inits);
            if cx.rep.too_many_fails() {
                return false;
            }
        }
    }
    true
}

fn run_amplifiers(cx: &mut Ctx, idx: &mut u64) -> bool {
    // sizes n, 2n, 4n, 8n; the doubling test compares consecutive sizes
    let base_sizes: Vec<usize> = if cx.args.thorough() { vec![4 << 10, 32 << 10, 128 << 10] } else { vec![4 << 10, 16 << 10] };
    for (fi, fam) in AMPLIFIERS.iter().enumerate() {
        for base in &base_sizes {
            *idx += 1;
            if !cx.args.mine(*idx) {
                continue;
            }
            // (n, ops of open, bytes of open, cpu = max(open, costliest later call), min of 2 sweeps)
            let mut steps: Vec<(u64, u64, u64, u64)> = Vec::new();
            for d in 0..4 {
                // (scaled families start at 512 KiB at most: beyond 4 MiB the unchanged reader's
                // own per-call times leave the linear regime for cache reasons - 379 ms at 8 MiB,
                // 1208 ms at 16 MiB measured - and the doubling test would sit at its limit)
                let scale = crate::hostile::amplifier_scale(fam);
                let target = (if scale > 1 { (base * scale).min(512 << 10) } else { *base }) << d;
                let id = format!("amp:{}:{}", fam, target);
                if !cx.args.want(&id) && cx.args.only.is_some() {
                    continue;
                }
                let mut rng = Rng::derive(cx.args.seed, 0xA3F + fi as u64, *base as u64);
                let bytes = Rc::new(amplifier(fam, target, &mut rng));
                cx.rep.cover_nt(hash_str(&format!("amp|{}|{}", fam, d)));
                cx.rep.note("amplifier_families", fam);
                let n = bytes.len() as u64;
                judge(cx, &id, &bytes, &format!("amplifier {} target {}", fam, target), &[]);
                if cx.prop == "C07" {
                    let obs = sweep(&bytes, &[], &cx.cfg);
                    let obs2 = sweep(&bytes, &[], &cx.cfg);
                    let worst = |o: &Obs| o.calls.iter().skip(1).map(|c| c.cpu_ns).max().unwrap_or(0);
                    let later_cpu = worst(&obs).min(worst(&obs2));
                    if let Some(c) = obs.calls.first() {
                        let open_cpu = c.cpu_ns.min(obs2.calls.first().map(|x| x.cpu_ns).unwrap_or(c.cpu_ns));
                        cx.rep.max("max_later_call_cpu_ns_on_amplifiers", later_cpu as f64);
                        steps.push((n, c.ops, c.bytes, open_cpu.max(later_cpu)));
                    }
                }
                if cx.rep.too_many_fails() {
                    return false;
                }
            }
            if cx.prop == "C07" && steps.len() >= 2 {
                // doubling test: between consecutive sizes that really grew (>= 1.5x), ops and
                // bytes must not grow faster than 1.6 x the size ratio (one step suffices: these
                // counters are deterministic); CPU time is noisy, so it needs TWO consecutive
                // super-linear steps above a 20 ms floor.
                let mut cpu_bad_run = 0;
                for w in steps.windows(2) {
                    let (p, cur) = (w[0], w[1]);
                    if (cur.0 as f64) < p.0 as f64 * 1.5 {
                        cpu_bad_run = 0;
                        continue;
                    }
                    cx.rep.add("doubling_steps_compared", 1);
                    let growth_n = cur.0 as f64 / p.0.max(1) as f64;
                    let lim = growth_n * 1.6;
                    let og = cur.1 as f64 / p.1.max(1) as f64;
                    let bg = cur.2 as f64 / p.2.max(1) as f64;
                    let cg = cur.3 as f64 / p.3.max(1) as f64;
                    // maxima are reported for the steps that are judged (above the noise floors)
                    if cur.1 > 4000 {
                        cx.rep.max("max_ops_growth_per_doubling", og / growth_n * 2.0);
                    }
                    if cur.2 > (1 << 16) {
                        cx.rep.max("max_bytes_growth_per_doubling", bg / growth_n * 2.0);
                    }
                    if cur.3 > 20_000_000 {
                        cx.rep.max("max_cpu_growth_per_doubling_above_20ms", cg / growth_n * 2.0);
                    }
                    let id = format!("amp:{}:{}", fam, cur.0);
                    if (og > lim && cur.1 > 4000) || (bg > lim && cur.2 > (1 << 16)) {
                        cx.rep.fail("C07", &id, "superlinear_growth", json!({"family": fam, "what": "stream operations / bytes", "prev": {"n": p.0, "ops": p.1, "bytes": p.2}, "cur": {"n": cur.0, "ops": cur.1, "bytes": cur.2}}));
                    }
                    if cg > lim && cur.3 > 20_000_000 {
                        cpu_bad_run += 1;
                        if cpu_bad_run >= 2 {
                            cx.rep.fail("C07", &id, "superlinear_growth", json!({"family": fam, "what": "cpu time (two consecutive doublings, min of 2 sweeps each)", "steps": steps.iter().map(|s| json!({"n": s.0, "cpu_ms": s.3 as f64 / 1e6})).collect::<Vec<_>>()}));
                        }
                    } else {
                        cpu_bad_run = 0;
                    }
                }
            }
        }
    }
    true
}

/// Structure-aware fresh generation: thousands of freshly generated movies (plain and
/// fragmented, every flag / layout combination the model knows, including empty runs, several
/// track fragments per track, 64-bit headers) are swept with every accessor - as valid files and
/// with one byte-level havoc variant each. This widens the *shapes* the fixed seed corpus has.
fn run_generated(cx: &mut Ctx, idx: &mut u64) -> bool {
    use crate::model::*;
    let n = cx.args.scale(40_000, 200_000);
    for i in 0..n {
        *idx += 1;
        if !cx.args.mine(*idx) {
            continue;
        }
        let id = format!("gen:{}", i);
        if !cx.args.want(&id) && !cx.args.want(&format!("gen:{}:havoc", i)) && !cx.args.want(&format!("gen:{}:segment", i)) {
            continue;
        }
        let mut rng = Rng::derive(cx.args.seed, 0x6E6, i);
        if i % 2 == 0 {
            let (mf, mt, mr) = if i % 10 == 0 { (6, 3, 12) } else { (4, 2, 4) };
            let same_trex = rng.bool();
            let fm = gen_frag_movie(&mut rng, mf, mt, mr, same_trex);
            let b = build_fragmented(&fm);
            let whole = Rc::new(b.whole.bytes.clone());
            cx.rep.cover(hash_str("generated|fragmented"));
            judge(cx, &id, &whole, "generated fragmented movie (single stream)", &[]);
            let init = Rc::new(b.init.clone());
            judge(cx, &format!("gen:{}:segment", i), &Rc::new(b.segment.clone()), "generated media segment against its init segment", &[init]);
            let seed = crate::hostile::seed_from_ser("gen", b.whole, None);
            let (hb, m) = mutate_havoc(&seed, &[], &mut rng);
            judge(cx, &format!("gen:{}:havoc", i), &Rc::new(hb), &format!("generated fragmented movie + {}", m.desc), &[]);
        } else {
            let m = gen_movie(&mut rng, 3, if i % 9 == 1 { 60 } else { 8 }, 24);
            let fl = gen_file_layout(&mut rng, &m);
            let b = build_plain(&m, &fl, &|_| {});
            cx.rep.cover(hash_str("generated|plain"));
            judge(cx, &id, &Rc::new(b.ser.bytes.clone()), "generated movie", &[]);
            let seed = crate::hostile::seed_from_ser("gen", b.ser, None);
            let (hb, mm) = mutate_havoc(&seed, &[], &mut rng);
            judge(cx, &format!("gen:{}:havoc", i), &Rc::new(hb), &format!("generated movie + {}", mm.desc), &[]);
        }
        cx.rep.add("generated_movies", 1);
        if cx.rep.too_many_fails() {
            return false;
        }
    }
    true
}

pub fn run(args: &Args) -> i32 {
    let mut rep = Report::new(args, true);
    let seeds = corpus(args.seed, args.thorough());
    rep.add("seed_files", if args.shard == 0 { seeds.len() as u64 } else { 0 });
    // three opened initialisation segments to open every input against as a fragment
    let mut inits: Vec<Rc<Vec<u8>>> = Vec::new();
    for s in &seeds {
        if let Some(i) = &s.init {
            if inits.len() < 2 {
                inits.push(Rc::new(i.clone()));
            }
        }
    }
    if let Some(s) = seeds.iter().find(|s| s.name.starts_with("plain")) {
        inits.push(Rc::new(s.bytes.clone()));
    }
    let prop = args.prop.clone();
    if prop == "C08" {
        if !alloc::enabled() {
            eprintln!("C08 needs the track-alloc feature");
            return 2;
        }
        // requests above 1 GiB are refused after being recorded: the process then aborts and
        // the driver attributes the death to the open case
        alloc::set_refuse_above(1 << 30);
    } else {
        alloc::set_refuse_above(24 << 30);
    }
    let cfg = SweepCfg { measure_alloc: prop == "C08", max_sample_ids: 16, ops_budget: (OPS_A, OPS_B), bytes_budget: (BYTES_A, BYTES_B), n: std::cell::Cell::new(0) };
    let mut cx = Ctx { args, rep: &mut rep, prop, inits, cfg };
    let mut idx = 0u64;
    if run_amplifiers(&mut cx, &mut idx) && run_generated(&mut cx, &mut idx) {
        run_seed_cases(&mut cx, &seeds, &mut idx);
    }
    rep.finish()
}
