//! C03 — sample lookup in non-fragmented files follows ISO sample-table semantics.
//! Files are synthesised by the reference encoder from a logical movie + physical layout;
//! the library only reads; every per-sample answer is compared with the model.

use crate::model::*;
use crate::prng::{hash_str, Rng};
use crate::readcheck::*;
use crate::report::{Args, Report};
use serde_json::json;
use std::rc::Rc;

pub fn layout_shape(t: &MTrack) -> String {
    let l = &t.layout;
    let n = t.samples.len();
    let b = |v: usize| match v {
        0..=6 => v,
        7..=20 => 7,
        21..=200 => 8,
        _ => 9,
    };
    let comp: String = if n <= 6 { format!("{:?}", l.chunks) } else { format!("c{}", b(l.chunks.len())) };
    let stsc = stsc_entries(l).len();
    let zero = t.samples.iter().filter(|s| s.size == 0).count();
    let nsync = t.samples.iter().filter(|s| s.sync).count();
    format!(
        "n{} {} r{} {}{}{} ct{:?}{} ss{}{} z{}",
        b(n), comp, b(stsc),
        if l.co64 { "co64" } else { "stco" },
        if l.fixed_stsz { " fixed" } else { " var" },
        if l.split_stts { " split" } else { "" },
        l.ctts, if l.split_ctts { "s" } else { "" },
        l.stss_present as u8,
        if nsync == 0 { 0 } else if nsync == n { 2 } else { 1 },
        b(zero)
    )
}

pub fn describe(m: &Movie, fl: &FileLayout) -> serde_json::Value {
    json!({
        "timescale": m.timescale,
        "moov_first": fl.moov_first, "mdat_large": fl.mdat_large, "mdat_to_end": fl.mdat_to_end,
        "tracks": m.tracks.iter().map(|t| json!({
            "id": t.id, "codec": format!("{:?}", t.codec), "ts": t.timescale, "n": t.samples.len(),
            "chunks": if t.layout.chunks.len() <= 24 { json!(t.layout.chunks) } else { json!(format!("{} chunks", t.layout.chunks.len())) },
            "stsc": if t.layout.chunks.len() <= 24 { json!(stsc_entries(&t.layout)) } else { json!(stsc_entries(&t.layout).len()) },
            "layout": layout_shape(t),
            "samples_head": t.samples.iter().take(6).map(|s| json!([s.size, s.delta, s.cts, s.sync])).collect::<Vec<_>>(),
        })).collect::<Vec<_>>(),
    })
}

fn eval(id: &str, m: &Movie, fl: &FileLayout, rep: &mut Report, args: &Args) {
    eval_x(id, m, fl, rep, args, None)
}

/// `large`: Some(seed) gives a pseudo-random subset of the boxes below moov (table boxes
/// included) the 64-bit size header; the tables stay consistent, only positions move.
fn eval_x(id: &str, m: &Movie, fl: &FileLayout, rep: &mut Report, args: &Args, large: Option<u64>) {
    rep.begin(id);
    let built = build_plain(m, fl, &|top| {
        if let Some(s) = large {
            crate::layoutx::mark_large(top, s, 5);
            // every other one of these movies also carries 1-3 unknown boxes (free, skip, wide,
            // uuid, a made-up type) somewhere in the tree: the tables stay consistent
            if s % 2 == 1 {
                crate::layoutx::insert_unknown(top, s ^ 0x5EED);
            }
        }
    });
    if large.is_some() {
        rep.add("movies_with_64bit_size_headers_below_moov", 1);
    }
    let bytes = Rc::new(built.ser.bytes);
    let fails = check_plain(&bytes, m, &built.expect, &Opts { compare_sync: true, bytes_from_file: false });
    let mut fails = fails;
    // Chunks may share bytes: "mutually consistent tables" does not say that the chunks of a
    // track are disjoint or that one ends before the next begins. One movie in three is checked
    // once more with the offset of one chunk (not the first of its track) moved to a position
    // strictly inside the preceding chunk of the same track; only that table entry changes, so
    // the expected bytes are the file's own bytes at the formula offsets.
    if fails.is_empty() && hash_str(id) % 3 == 0 {
        let mut cand: Vec<(usize, usize, u64)> = Vec::new(); // (track, chunk index c+1, new offset)
        for (ti, t) in m.tracks.iter().enumerate() {
            let mut k = 0usize;
            for (ci, c) in t.layout.chunks.iter().enumerate() {
                let first = k;
                k += *c as usize;
                if ci + 1 >= t.layout.chunks.len() || *c == 0 {
                    continue;
                }
                let len: u64 = t.samples[first..k].iter().map(|s| s.size as u64).sum();
                let (o0, o1) = (built.expect[ti][first].offset, built.expect[ti].get(k).map(|e| e.offset));
                if let Some(o1) = o1 {
                    if len >= 2 && o1 > o0 {
                        cand.push((ti, ci + 1, o0 + 1 + (hash_str(id) >> 8) % (len - 1)));
                    }
                }
            }
        }
        if !cand.is_empty() {
            let (ti, cj, new_off) = cand[(hash_str(id) >> 20) as usize % cand.len()];
            let tag = format!("/trak[{}]/", ti);
            let fields: Vec<&crate::refenc::Field> = built.ser.fields.iter().filter(|f| f.path.contains(&tag) && f.path.contains(".chunk_offset#")).collect();
            if let Some(f) = fields.get(cj) {
                let mut patched = (*bytes).clone();
                crate::hostile::put(&mut patched, f.off, f.width, new_off);
                let mut expect2: Vec<Vec<crate::model::Expect>> = built.expect.iter().map(|v| v.iter().map(|e| crate::model::Expect { ..*e }).collect()).collect();
                let first: usize = m.tracks[ti].layout.chunks[..cj].iter().map(|c| *c as usize).sum();
                let mut off = new_off;
                for e in expect2[ti][first..first + m.tracks[ti].layout.chunks[cj] as usize].iter_mut() {
                    e.offset = off;
                    off += e.size as u64;
                }
                let f2 = check_plain(&Rc::new(patched), m, &expect2, &Opts { compare_sync: true, bytes_from_file: true });
                for (rule, d) in f2 {
                    fails.push((format!("chunks_sharing_bytes:{}", rule), d));
                }
                rep.add("movies_with_a_chunk_that_starts_inside_the_preceding_chunk", 1);
            }
        }
    }
    // self-check of the trusted base: the independent decoder must expand the reference
    // encoder's tables to exactly the model's expectations (depends on harness code only)
    match crate::refdec::parse_file(&*bytes).and_then(|top| crate::refdec::dec_movie(&*bytes, &top)) {
        Ok(mv) => {
            for (ti, t) in mv.tracks.iter().enumerate() {
                match t.stbl.samples() {
                    Ok(ss) => {
                        let same = ss.len() == built.expect[ti].len()
                            && ss.iter().zip(built.expect[ti].iter()).all(|(a, b)| a.offset == b.offset && a.size == b.size && a.start == b.start && a.delta == b.delta && a.cts == b.cts && a.sync == b.sync);
                        if !same {
                            fails.push(("oracle_inconsistent".into(), json!({"track": ti, "why": "refdec expansion != model expectation"})));
                        }
                    }
                    Err(e) => fails.push(("oracle_inconsistent".into(), json!({"track": ti, "refdec": e}))),
                }
            }
            rep.add("oracle_cross_checks", 1);
        }
        Err(e) => fails.push(("oracle_inconsistent".into(), json!({"refdec": e}))),
    }
    let mut nontrivial = false;
    for t in &m.tracks {
        let h = hash_str(&layout_shape(t));
        if t.samples.len() >= 2 {
            rep.cover_nt(h);
            nontrivial = true;
        } else {
            rep.cover(h);
        }
    }
    rep.add("samples_checked", m.tracks.iter().map(|t| t.samples.len() as u64).sum());
    rep.max("max_file_bytes", bytes.len() as f64);
    if rep.want_sample() && nontrivial && args.shard < 2 {
        rep.sample(json!({"case": id, "movie": describe(m, fl), "file_bytes": bytes.len()}));
    }
    if rep.verbose {
        eprintln!("{}", serde_json::to_string_pretty(&describe(m, fl)).unwrap());
    }
    if let Some((rule, detail)) = fails.first() {
        rep.fail("C03", id, rule, json!({"detail": detail, "more": fails.len() - 1, "movie": describe(m, fl), "file_hex": crate::report::hex_trunc(&bytes, 1500)}));
    }
    rep.end();
}

/// The exhaustive stratum: one track of N <= nmax samples, every composition into chunks,
/// every subset of optional stsc breaks; remaining dimensions cycle deterministically so that
/// each value of each dimension meets each composition.
fn exhaustive(args: &Args, rep: &mut Report, nmax: u32, full_dims: bool) {
    let mut idx = 0u64;
    for n in 0..=nmax {
        for comp in compositions(n) {
            let nb = comp.len();
            // optional breaks: between equal neighbours only (others are forced anyway)
            let optional: Vec<usize> = (1..nb).filter(|i| comp[*i] == comp[*i - 1]).collect();
            for bm in 0..(1u32 << optional.len()) {
                let dims: u32 = if full_dims { 48 } else { 6 };
                for d in 0..dims {
                    idx += 1;
                    if !args.mine(idx) {
                        continue;
                    }
                    let id = format!("ex:{}:{:?}:{}:{}", n, comp, bm, d);
                    if !args.want(&id) {
                        continue;
                    }
                    let mut rng = Rng::derive(args.seed, 0xC03E, idx);
                    let sel = if full_dims { d } else { (idx as u32).wrapping_mul(7).wrapping_add(d * 8) % 48 };
                    let co64 = sel & 1 == 1;
                    let size_mode = (sel >> 1) % 3; // 0 equal sizes (fixed stsz), 1 varying, 2 with zeros
                    let ctts = match (sel / 6) % 4 {
                        0 => CttsMode::Absent,
                        1 => CttsMode::V0,
                        _ => CttsMode::V1,
                    };
                    let stss_mode = (sel / 24) % 2; // 0 absent, 1 present (random subset incl. empty)
                    let mut samples = Vec::new();
                    for k in 0..n {
                        let size = match size_mode {
                            0 => 3,
                            1 => 1 + ((k * 5 + 2) % 7),
                            _ => if (k + bm) % 2 == 0 { 0 } else { 2 + k },
                        };
                        let cts = match ctts {
                            CttsMode::Absent => 0,
                            CttsMode::V0 => (k as i32 % 3) * 10,
                            CttsMode::V1 => (k as i32 % 3 - 1) * 10,
                        };
                        samples.push(MSample { size, fill: rng.next_u64(), delta: [10u32, 10, 20, 0, 7][(k as usize + d as usize) % 5], cts, sync: if stss_mode == 0 { true } else { rng.bool() } });
                    }
                    let mut extra = vec![false; nb];
                    for (j, pos) in optional.iter().enumerate() {
                        extra[*pos] = bm & (1 << j) != 0;
                    }
                    let layout = StblLayout {
                        chunks: comp.clone(),
                        extra_breaks: extra,
                        co64,
                        fixed_stsz: size_mode == 0 && n > 0,
                        split_stts: rng.bool(),
                        ctts,
                        split_ctts: rng.bool(),
                        stss_present: stss_mode == 1,
                        split_seed: rng.next_u64(),
                    };
                    let t = MTrack { id: 1, codec: [Codec::Avc, Codec::Aac, Codec::Ttxt, Codec::Hevc, Codec::Vp9][(idx % 5) as usize], timescale: 1000, lang: *b"und", width: 16, height: 16,
                        samples, layout, with_edts: false, aac: (2, 3, 2, 64000), sps: vec![0x67, 100, 0, 30], pps: vec![0x68, 1, 2, 3] };
                    let m = Movie { major: *b"isom", minor: 0, brands: vec![*b"isom"], timescale: 1000, tracks: vec![t], tags: None };
                    let fl = FileLayout { moov_first: idx % 2 == 0, chunk_order: (0..nb).map(|c| (0usize, c)).collect(), gaps: (0..nb).map(|c| ((c as u64 + idx) % 3) as u32).collect(), mdat_large: idx % 11 == 0, mdat_to_end: false, free_between: idx % 5 == 0 };
                    eval(&id, &m, &fl, rep, args);
                    if rep.too_many_fails() {
                        return;
                    }
                }
            }
        }
    }
    rep.add("exhaustive_cases_total", idx);
}

/// Reader-side large files without moving data: the movie header is real, the media data is a
/// virtual tail. One chunk holds N samples whose total exceeds 4 GiB, with a constant size or
/// a size table; ids on both sides of the 2^32 boundary inside the chunk are checked.
fn virtual_large(args: &Args, rep: &mut Report) {
    use crate::refenc::*;
    use crate::streams::VirtualTail;
    let mut k = 0u64;
    for constant in [true, false] {
        for co64_first_chunk_high in [false, true] {
            for (size, n) in [(1u32 << 20, 5000u32), (1 << 16, 70_000), ((1 << 20) + 1, 4100), (u32::MAX, 3)] {
                k += 1;
                if !args.mine(k) {
                    continue;
                }
                let id = format!("virtual:{}:{}:{}:{}", constant, co64_first_chunk_high, size, n);
                if !args.want(&id) {
                    continue;
                }
                rep.begin(&id);
                // sizes: constant, or a table alternating size / size-1 (size >= 2)
                let sizes: Vec<u32> = if constant { vec![] } else { (0..n).map(|i| if i % 2 == 0 { size } else { size - 1 }).collect() };
                let size_of = |i: u32| -> u64 { if constant { size as u64 } else { sizes[i as usize] as u64 } };
                let total_payload: u64 = (0..n).map(size_of).sum();
                let make = |chunk_off: u64| -> Vec<BoxT> {
                    let mut stbl = BoxT::new(b"stbl");
                    stbl.push(enc_stsd(0, 0, vec![enc_tx3g(&Tx3gF::default())]));
                    stbl.push(enc_stts(0, 0, &[(n, 10)]));
                    stbl.push(enc_stsc(0, 0, &[(1, n, 1)]));
                    if constant {
                        stbl.push(enc_stsz(0, 0, size, n, &[]));
                    } else {
                        stbl.push(enc_stsz(0, 0, 0, n, &sizes));
                    }
                    stbl.push(enc_co64(0, 0, &[chunk_off]));
                    let minf = BoxT::container(b"minf", vec![enc_dinf_default(), stbl]);
                    let mdia = BoxT::container(b"mdia", vec![enc_mdhd(&MdhdF { timescale: 1000, duration: n as u64 * 10, ..Default::default() }), enc_hdlr(&HdlrF { handler: *b"sbtl", name: b"v".to_vec(), ..Default::default() }), minf]);
                    let trak = BoxT::container(b"trak", vec![enc_tkhd(&TkhdF { track_id: 1, duration: n as u64 * 10, ..Default::default() }), mdia]);
                    let moov = BoxT::container(b"moov", vec![enc_mvhd(&MvhdF { duration: n as u64 * 10, next_track_id: 2, ..Default::default() }), trak]);
                    let mut mdat = BoxT::new(b"mdat");
                    mdat.large = true;
                    vec![enc_ftyp(&FtypF { major: *b"isom", minor: 0, brands: vec![] }), moov, mdat]
                };
                let head0 = serialize(&make(0)).bytes;
                let pad: u64 = if co64_first_chunk_high { (1u64 << 32) + 12345 } else { 0 };
                let chunk_off = head0.len() as u64 + pad;
                let mut head = serialize(&make(chunk_off)).bytes;
                // patch the mdat largesize (last 8 bytes of the head) to cover the virtual payload
                let total = head.len() as u64 + pad + total_payload;
                let l = head.len();
                head[l - 8..].copy_from_slice(&(16 + pad + total_payload).to_be_bytes());
                let head = Rc::new(head);
                let vt = VirtualTail { head: head.clone(), total, seed: 0xF00D ^ k, pos: 0 };
                let probe = VirtualTail { head: head.clone(), total, seed: 0xF00D ^ k, pos: 0 };
                match crate::panicmon::catch(|| mp4::Mp4Reader::read_header(vt, total)) {
                    Ok(Ok(mut mp4)) => {
                        // ids around the 4 GiB mark inside the chunk, and the ends
                        let mut ids: Vec<u32> = vec![1, 2, n / 2, n - 1, n];
                        let mut acc = 0u64;
                        for i in 0..n {
                            if acc >= (1u64 << 32) {
                                for d in [-2i64, -1, 0, 1, 2] {
                                    let v = i as i64 + 1 + d;
                                    if v >= 1 && v <= n as i64 {
                                        ids.push(v as u32);
                                    }
                                }
                                break;
                            }
                            acc += size_of(i);
                        }
                        ids.sort();
                        ids.dedup();
                        for sid in ids {
                            let want_off = chunk_off + (0..sid - 1).map(size_of).sum::<u64>();
                            match crate::panicmon::catch(|| mp4.sample_offset(1, sid)) {
                                Ok(Ok(o)) if o == want_off => {}
                                other => {
                                    rep.fail("C03", &id, "sample_offset", json!({"sample": sid, "want": want_off, "got": format!("{:?}", other.map(|r| r.map_err(|e| e.to_string())).map_err(|p| p.msg))}));
                                    break;
                                }
                            }
                            // read the bytes only for moderately sized samples
                            let sz = size_of(sid - 1);
                            if sz <= (2 << 20) {
                                match crate::panicmon::catch(|| mp4.read_sample(1, sid)) {
                                    Ok(Ok(Some(s))) => {
                                        let ok = s.bytes.len() as u64 == sz
                                            && s.start_time == (sid as u64 - 1) * 10
                                            && s.duration == 10
                                            && [0u64, 1, sz / 2, sz - 1].iter().all(|p| s.bytes[*p as usize] == probe.byte_at(want_off + p));
                                        if !ok {
                                            rep.fail("C03", &id, "sample_bytes", json!({"sample": sid, "len": s.bytes.len(), "want_len": sz, "start": s.start_time}));
                                            break;
                                        }
                                    }
                                    other => {
                                        rep.fail("C03", &id, "sample_read", json!({"sample": sid, "got": format!("{:?}", other.map(|r| r.map(|o| o.map(|s| s.bytes.len())).map_err(|e| e.to_string())).map_err(|p| p.msg))}));
                                        break;
                                    }
                                }
                            }
                            rep.add("virtual_large_samples_checked", 1);
                        }
                    }
                    Ok(Err(e)) => rep.fail("C03", &id, "reader_open_error", json!({"err": e.to_string()})),
                    Err(p) => rep.fail("C03", &id, "reader_panic", json!({"site": p.site(), "msg": p.msg})),
                }
                rep.cover_nt(hash_str(&format!("virtual|const{}|high{}|{}", constant, co64_first_chunk_high, size)));
                rep.end();
            }
        }
    }
}

pub fn run(args: &Args) -> i32 {
    let mut rep = Report::new(args, true);
    virtual_large(args, &mut rep);
    exhaustive(args, &mut rep, if args.thorough() { 7 } else { 6 }, args.thorough());
    if rep.too_many_fails() {
        return rep.finish();
    }
    let n = args.scale(100_000, 800_000);
    for i in 0..n {
        if !args.mine(i) {
            continue;
        }
        let id = format!("rand:{}", i);
        if !args.want(&id) {
            continue;
        }
        let mut rng = Rng::derive(args.seed, 0xC03, i);
        let (mt, ms, mz) = if i % 50 == 0 { (3, 5000, 64) } else if i % 4 == 0 { (3, 200, 300) } else { (3, 20, 40) };
        let m = gen_movie(&mut rng, mt, ms, mz);
        let fl = gen_file_layout(&mut rng, &m);
        let large = if i % 4 == 3 { Some(rng.next_u64()) } else { None };
        eval_x(&id, &m, &fl, &mut rep, args, large);
        if rep.too_many_fails() {
            break;
        }
    }
    rep.finish()
}
