//! C16 — code and enumeration mappings are exact over their whole domain.
//! Exhaustive runtime enumeration of every finite domain against tables re-typed from the
//! specifications (MP4RA four-character codes, ISO/IEC 14496-3 tables, ISO-639-2/T packing).

use crate::report::{Args, Report};
use mp4::*;
use serde_json::json;
use std::convert::TryFrom;
use std::result::Result;
use std::io::Cursor;
use std::str::FromStr;

/// (four-character code as registered, enumeration variant)
fn code_table() -> Vec<(&'static [u8; 4], BoxType)> {
    vec![
        (b"ftyp", BoxType::FtypBox),
        (b"mvhd", BoxType::MvhdBox),
        (b"mfhd", BoxType::MfhdBox),
        (b"free", BoxType::FreeBox),
        (b"mdat", BoxType::MdatBox),
        (b"moov", BoxType::MoovBox),
        (b"mvex", BoxType::MvexBox),
        (b"mehd", BoxType::MehdBox),
        (b"trex", BoxType::TrexBox),
        (b"emsg", BoxType::EmsgBox),
        (b"moof", BoxType::MoofBox),
        (b"tkhd", BoxType::TkhdBox),
        (b"tfhd", BoxType::TfhdBox),
        (b"tfdt", BoxType::TfdtBox),
        (b"edts", BoxType::EdtsBox),
        (b"mdia", BoxType::MdiaBox),
        (b"elst", BoxType::ElstBox),
        (b"mdhd", BoxType::MdhdBox),
        (b"hdlr", BoxType::HdlrBox),
        (b"minf", BoxType::MinfBox),
        (b"vmhd", BoxType::VmhdBox),
        (b"stbl", BoxType::StblBox),
        (b"stsd", BoxType::StsdBox),
        (b"stts", BoxType::SttsBox),
        (b"ctts", BoxType::CttsBox),
        (b"stss", BoxType::StssBox),
        (b"stsc", BoxType::StscBox),
        (b"stsz", BoxType::StszBox),
        (b"stco", BoxType::StcoBox),
        (b"co64", BoxType::Co64Box),
        (b"trak", BoxType::TrakBox),
        (b"traf", BoxType::TrafBox),
        (b"trun", BoxType::TrunBox),
        (b"udta", BoxType::UdtaBox),
        (b"meta", BoxType::MetaBox),
        (b"dinf", BoxType::DinfBox),
        (b"dref", BoxType::DrefBox),
        (b"url ", BoxType::UrlBox),
        (b"smhd", BoxType::SmhdBox),
        (b"avc1", BoxType::Avc1Box),
        (b"avcC", BoxType::AvcCBox),
        (b"hev1", BoxType::Hev1Box),
        (b"hvcC", BoxType::HvcCBox),
        (b"mp4a", BoxType::Mp4aBox),
        (b"esds", BoxType::EsdsBox),
        (b"tx3g", BoxType::Tx3gBox),
        (b"vpcC", BoxType::VpccBox),
        (b"vp09", BoxType::Vp09Box),
        (b"data", BoxType::DataBox),
        (b"ilst", BoxType::IlstBox),
        (b"\xa9nam", BoxType::NameBox),
        (b"\xa9day", BoxType::DayBox),
        (b"covr", BoxType::CovrBox),
        (b"desc", BoxType::DescBox),
        (b"wide", BoxType::WideBox),
        (b"wave", BoxType::WaveBox),
    ]
}

struct Fail {
    rule: &'static str,
    detail: serde_json::Value,
}

fn check_numeric_code(
    c: u32,
    known: &std::collections::HashMap<u32, BoxType>,
) -> Result<(), Fail> {
    // u32 -> FourCC -> u32
    let f = FourCC::from(c);
    if f.value != c.to_be_bytes() {
        return Err(Fail { rule: "fourcc_bytes", detail: json!({"code": c, "got": f.value}) });
    }
    let back: u32 = (&f).into();
    let back2: u32 = f.into();
    if back != c || back2 != c {
        return Err(Fail { rule: "fourcc_roundtrip", detail: json!({"code": c, "got": back}) });
    }
    // u32 -> BoxType -> u32
    let b = BoxType::from(c);
    let bc: u32 = b.into();
    if bc != c {
        return Err(Fail { rule: "boxtype_roundtrip", detail: json!({"code": c, "got": bc}) });
    }
    match known.get(&c) {
        Some(exp) => {
            if b != *exp {
                return Err(Fail {
                    rule: "boxtype_variant",
                    detail: json!({"code": c, "fourcc": String::from_utf8_lossy(&c.to_be_bytes()), "got": format!("{:?}", b)}),
                });
            }
        }
        None => {
            if !matches!(b, BoxType::UnknownBox(x) if x == c) {
                return Err(Fail {
                    rule: "boxtype_unknown",
                    detail: json!({"code": c, "got": format!("{:?}", b)}),
                });
            }
        }
    }
    // BoxType -> FourCC
    let bf = FourCC::from(b);
    if bf.value != c.to_be_bytes() {
        return Err(Fail { rule: "boxtype_to_fourcc", detail: json!({"code": c, "got": bf.value}) });
    }
    Ok(())
}

struct Buf4 {
    b: [u8; 16],
    n: usize,
}
impl std::fmt::Write for Buf4 {
    fn write_str(&mut self, s: &str) -> std::fmt::Result {
        for x in s.as_bytes() {
            if self.n < 16 {
                self.b[self.n] = *x;
            }
            self.n += 1;
        }
        Ok(())
    }
}

fn check_text_code(c: u32) -> Result<bool, Fail> {
    use std::fmt::Write;
    let bytes = c.to_be_bytes();
    let f = FourCC::from(c);
    let mut w = Buf4 { b: [0; 16], n: 0 };
    let _ = write!(w, "{}", f);
    match std::str::from_utf8(&bytes) {
        Ok(s) => {
            // textual form must be exactly the four bytes, and parse back to the same code
            if w.n != 4 || w.b[..4] != bytes {
                return Err(Fail {
                    rule: "display_text",
                    detail: json!({"code": c, "display_len": w.n}),
                });
            }
            match FourCC::from_str(s) {
                Ok(p) => {
                    if p != f || u32::from(p) != c {
                        return Err(Fail { rule: "fromstr_roundtrip", detail: json!({"code": c}) });
                    }
                }
                Err(_) => {
                    return Err(Fail { rule: "fromstr_rejects_4_bytes", detail: json!({"code": c}) })
                }
            }
            // BoxType Display agrees with FourCC Display
            let mut w2 = Buf4 { b: [0; 16], n: 0 };
            let _ = write!(w2, "{}", BoxType::from(c));
            if w2.n != 4 || w2.b[..4] != bytes {
                return Err(Fail { rule: "boxtype_display", detail: json!({"code": c}) });
            }
            Ok(true)
        }
        Err(_) => Ok(false), // not representable as text (see DESIGN 8.3); Display must merely not panic
    }
}

fn iso639_decode(code: u16) -> String {
    // ISO/IEC 14496-12 8.4.2.3: three 5-bit values, each the character minus 0x60
    let a = ((code >> 10) & 0x1F) as u8 + 0x60;
    let b = ((code >> 5) & 0x1F) as u8 + 0x60;
    let c = (code & 0x1F) as u8 + 0x60;
    String::from_utf8(vec![a, b, c]).unwrap()
}

fn mdhd_bytes(lang: u16) -> Vec<u8> {
    let mut v = Vec::new();
    v.extend_from_slice(&32u32.to_be_bytes());
    v.extend_from_slice(b"mdhd");
    v.extend_from_slice(&[0, 0, 0, 0]);
    v.extend_from_slice(&0u32.to_be_bytes());
    v.extend_from_slice(&0u32.to_be_bytes());
    v.extend_from_slice(&1000u32.to_be_bytes());
    v.extend_from_slice(&0u32.to_be_bytes());
    v.extend_from_slice(&lang.to_be_bytes());
    v.extend_from_slice(&0u16.to_be_bytes());
    v
}

pub fn run(args: &Args) -> i32 {
    let mut rep = Report::new(args, false);
    let table = code_table();
    let mut known = std::collections::HashMap::new();
    for (s, b) in &table {
        known.insert(u32::from_be_bytes(**s), *b);
    }
    let mut fail = |rep: &mut Report, mapping: &str, f: Fail| {
        rep.fail("C16", mapping, f.rule, f.detail);
    };

    // ---------------- 2^32 numeric codes: exhaustive in both tiers -------------------
    let per = (1u64 << 32) / args.nshards;
    let lo = per * args.shard;
    let hi = if args.shard == args.nshards - 1 { 1u64 << 32 } else { lo + per };
    if args.want("codes_numeric") {
        let mut n = 0u64;
        let mut c = lo;
        while c < hi {
            if let Err(f) = check_numeric_code(c as u32, &known) {
                fail(&mut rep, "codes_numeric", f);
                if rep.too_many_fails() {
                    break;
                }
            }
            n += 1;
            c += 1;
        }
        rep.evals += n;
        rep.add("codes_numeric", n);
        // DataType over all 2^32 raw values (same shard range)
        let mut c = lo;
        let mut n = 0u64;
        while c < hi {
            let v = c as u32;
            let exp = matches!(v, 0 | 1 | 13 | 21);
            match DataType::try_from(v) {
                Ok(d) => {
                    if !exp || d.clone() as u32 != v {
                        fail(&mut rep, "data_type", Fail { rule: "data_type_accepts", detail: json!({"raw": v}) });
                    }
                }
                Err(_) => {
                    if exp {
                        fail(&mut rep, "data_type", Fail { rule: "data_type_rejects", detail: json!({"raw": v}) });
                    }
                }
            }
            n += 1;
            c += 1;
            if rep.too_many_fails() {
                break;
            }
        }
        rep.evals += n;
        rep.add("data_type_raw", n);
        // TrackType from every four-character code
        let mut c = lo;
        let mut n = 0u64;
        while c < hi {
            let v = c as u32;
            let f = FourCC::from(v);
            let exp = match &v.to_be_bytes() {
                b"vide" => Some(TrackType::Video),
                b"soun" => Some(TrackType::Audio),
                b"sbtl" => Some(TrackType::Subtitle),
                _ => None,
            };
            let got = TrackType::try_from(&f).ok();
            if got != exp {
                fail(&mut rep, "track_type_fourcc", Fail { rule: "track_type_fourcc", detail: json!({"code": v, "got": format!("{:?}", got)}) });
                if rep.too_many_fails() {
                    break;
                }
            }
            n += 1;
            c += 1;
        }
        rep.evals += n;
        rep.add("track_type_fourcc", n);
    }

    // ---------------- textual form: all codes (thorough) or stratified sample (quick) --------
    if args.want("codes_text") {
        let stride: u64 = if args.thorough() { 1 } else { 61 };
        let mut c = lo + (args.seed % stride);
        let mut n = 0u64;
        let mut ntext = 0u64;
        while c < hi {
            match check_text_code(c as u32) {
                Ok(t) => {
                    if t {
                        ntext += 1
                    }
                }
                Err(f) => {
                    fail(&mut rep, "codes_text", f);
                    if rep.too_many_fails() {
                        break;
                    }
                }
            }
            n += 1;
            c += stride;
        }
        // known codes and all their single-bit neighbours, always
        if args.shard == 0 {
            for (s, _) in &table {
                let k = u32::from_be_bytes(**s);
                for bit in 0..33 {
                    let c = if bit == 32 { k } else { k ^ (1 << bit) };
                    match check_text_code(c) {
                        Ok(t) => {
                            if t {
                                ntext += 1
                            }
                        }
                        Err(f) => fail(&mut rep, "codes_text", f),
                    }
                    n += 1;
                }
            }
            // strings that are not four bytes long are rejected
            for s in ["", "a", "ab", "abc", "abcde", "ftyp ", " ftyp", "moovmoov", "\u{e9}a", "\u{e9}ab", "\u{20ac}", "\u{20ac}ab", "\u{1F600}a"] {
                let r = FourCC::from_str(s);
                let exp_ok = s.len() == 4;
                if r.is_ok() != exp_ok {
                    fail(&mut rep, "codes_text", Fail { rule: "fromstr_length", detail: json!({"s": s}) });
                }
                if let Ok(f) = r {
                    if f.to_string() != s {
                        fail(&mut rep, "codes_text", Fail { rule: "fromstr_display", detail: json!({"s": s}) });
                    }
                }
                n += 1;
            }
        }
        rep.evals += n;
        rep.add("codes_text", n);
        rep.add("codes_text_valid_utf8", ntext);
    }

    // ---------------- small domains: shard 0 only ----------------------------------
    if args.shard == 0 && args.want("small") {
        // known-code table sanity + neighbours (non-trivial points)
        for (s, _) in &table {
            let k = u32::from_be_bytes(**s);
            rep.cover_nt(k as u64);
            for bit in 0..32 {
                rep.cover_nt((k ^ (1 << bit)) as u64);
            }
        }
        // --- ISO-639 language: all 2^16 packed codes through the media header codec
        let mut n = 0u64;
        for code in 0..=u16::MAX {
            let bytes = mdhd_bytes(code);
            let mut cur = Cursor::new(&bytes[..]);
            let r = BoxHeader::read(&mut cur).and_then(|h| MdhdBox::read_box(&mut cur, h.size));
            let exp = iso639_decode(code);
            match r {
                Ok(m) => {
                    if m.language != exp {
                        fail(&mut rep, "language", Fail { rule: "language_decode", detail: json!({"code": code, "got": m.language, "want": exp}) });
                    }
                    // encode the decoded string again: must give the same 15 bits
                    let mut out = Vec::new();
                    match m.write_box(&mut out) {
                        Ok(_) => {
                            let got = u16::from_be_bytes([out[28], out[29]]);
                            if got != (code & 0x7FFF) {
                                fail(&mut rep, "language", Fail { rule: "language_encode", detail: json!({"code": code, "got": got, "lang": exp}) });
                            }
                        }
                        Err(e) => fail(&mut rep, "language", Fail { rule: "language_encode_err", detail: json!({"code": code, "err": e.to_string()}) }),
                    }
                }
                Err(e) => fail(&mut rep, "language", Fail { rule: "language_decode_err", detail: json!({"code": code, "err": e.to_string()}) }),
            }
            n += 1;
            rep.cover_nt(0x1_0000_0000 | code as u64);
            if rep.too_many_fails() {
                break;
            }
        }
        // all 26^3 lowercase three-letter codes: encode -> defining formula
        for a in b'a'..=b'z' {
            for b in b'a'..=b'z' {
                for c in b'a'..=b'z' {
                    let s = String::from_utf8(vec![a, b, c]).unwrap();
                    let m = MdhdBox { language: s.clone(), ..Default::default() };
                    let mut out = Vec::new();
                    let _ = m.write_box(&mut out);
                    let got = u16::from_be_bytes([out[28], out[29]]);
                    let want = (((a - 0x60) as u16) << 10) | (((b - 0x60) as u16) << 5) | (c - 0x60) as u16;
                    if got != want {
                        fail(&mut rep, "language", Fail { rule: "language_pack", detail: json!({"lang": s, "got": got, "want": want}) });
                    }
                    n += 1;
                }
            }
        }
        rep.add("language_codes", n);
        rep.evals += n;

        // --- fixed-point wrappers
        let mut n = 0u64;
        for r in 0..=u16::MAX {
            let f = FixedPointU8::new_raw(r);
            if f.raw_value() != r || f.value() != (r >> 8) as u8 {
                fail(&mut rep, "fixed_u8", Fail { rule: "fixed_u8_raw", detail: json!({"raw": r, "value": f.value()}) });
            }
            let g = FixedPointI8::new_raw(r as i16);
            let ri = r as i16;
            // integer part = the value rounded towards zero (what `Ratio::to_integer`, the
            // wrapper's representation, documents; floor differs for negative non-integers only)
            let tr = (ri / 256) as i8;
            if g.raw_value() != ri || g.value() != tr {
                fail(&mut rep, "fixed_i8", Fail { rule: "fixed_i8_raw", detail: json!({"raw": ri, "value": g.value(), "want_integer_part": tr}) });
            }
            n += 2;
            rep.cover_nt(0x2_0000_0000 | r as u64);
        }
        for v in 0..=u8::MAX {
            let f = FixedPointU8::new(v);
            if f.value() != v || f.raw_value() != (v as u16) << 8 {
                fail(&mut rep, "fixed_u8", Fail { rule: "fixed_u8_new", detail: json!({"v": v}) });
            }
            let g = FixedPointI8::new(v as i8);
            if g.value() != v as i8 || g.raw_value() != ((v as i8) as i16) * 256 {
                fail(&mut rep, "fixed_i8", Fail { rule: "fixed_i8_new", detail: json!({"v": v as i8}) });
            }
            n += 2;
        }
        for v in 0..=u16::MAX {
            let f = FixedPointU16::new(v);
            if f.value() != v || f.raw_value() != (v as u32) << 16 {
                fail(&mut rep, "fixed_u16", Fail { rule: "fixed_u16_new", detail: json!({"v": v}) });
            }
            n += 1;
        }
        rep.add("fixed_point_small", n);
        rep.evals += n;

        // --- AVC profile: all 2^16 (profile_idc, compatibility) pairs; H.264 Annex A
        let mut n = 0u64;
        for p in 0..=255u8 {
            for compat in 0..=255u8 {
                let cs1 = compat & 0x40 != 0; // constraint_set1_flag is bit 6 of the compatibility byte
                let want = match p {
                    66 => Some(if cs1 { AvcProfile::AvcConstrainedBaseline } else { AvcProfile::AvcBaseline }),
                    77 => Some(AvcProfile::AvcMain),
                    88 => Some(AvcProfile::AvcExtended),
                    100 => Some(AvcProfile::AvcHigh),
                    _ => None,
                };
                let got = AvcProfile::try_from((p, compat)).ok();
                if got != want {
                    fail(&mut rep, "avc_profile", Fail { rule: "avc_profile", detail: json!({"profile": p, "compat": compat, "got": format!("{:?}", got), "want": format!("{:?}", want)}) });
                    if rep.too_many_fails() {
                        break;
                    }
                }
                n += 1;
            }
        }
        rep.add("avc_profile_pairs", n);
        rep.evals += n;

        // --- u8 domains
        let aot_ok = |v: u8| matches!(v, 1..=9 | 12..=17 | 19..=30 | 32..=46);
        let freqs: [u32; 13] = [96000, 88200, 64000, 48000, 44100, 32000, 24000, 22050, 16000, 12000, 11025, 8000, 7350];
        let mut n = 0u64;
        let mut names = std::collections::HashSet::new();
        for v in 0..=255u8 {
            match AudioObjectType::try_from(v) {
                Ok(a) => {
                    if !aot_ok(v) || a as u8 != v {
                        fail(&mut rep, "aot", Fail { rule: "aot_accepts", detail: json!({"v": v}) });
                    }
                    let name = a.to_string();
                    if name.is_empty() || !names.insert(name.clone()) {
                        fail(&mut rep, "aot", Fail { rule: "aot_name", detail: json!({"v": v, "name": name}) });
                    }
                }
                Err(_) => {
                    if aot_ok(v) {
                        fail(&mut rep, "aot", Fail { rule: "aot_rejects", detail: json!({"v": v}) });
                    }
                }
            }
            match SampleFreqIndex::try_from(v) {
                Ok(s) => {
                    if v > 12 || s as u8 != v || s.freq() != freqs[v as usize] {
                        fail(&mut rep, "freq", Fail { rule: "freq_accepts", detail: json!({"v": v, "freq": s.freq()}) });
                    }
                }
                Err(_) => {
                    if v <= 12 {
                        fail(&mut rep, "freq", Fail { rule: "freq_rejects", detail: json!({"v": v}) });
                    }
                }
            }
            match ChannelConfig::try_from(v) {
                Ok(c) => {
                    if !(1..=7).contains(&v) || c as u8 != v {
                        fail(&mut rep, "chan", Fail { rule: "chan_accepts", detail: json!({"v": v}) });
                    }
                }
                Err(_) => {
                    if (1..=7).contains(&v) {
                        fail(&mut rep, "chan", Fail { rule: "chan_rejects", detail: json!({"v": v}) });
                    }
                }
            }
            n += 3;
            rep.cover_nt(0x3_0000_0000 | v as u64);
        }
        rep.add("u8_domains", n);
        rep.evals += n;

        // --- the sampling-frequency index as the reader hands it to the mapping: every raw
        // 4-bit index written into an AudioSpecificConfig by the reference encoder (index 15
        // with each of the 13 table rates and some others as the explicit rate that follows it;
        // plain and escaped object types) must come out of the esds decoder as that same index,
        // so that the mapping accepts exactly 0..=12 - the escape value 15 names no table entry,
        // whatever rate follows it.
        #[cfg(feature = "hooks")]
        {
            let mut n = 0u64;
            let mut rng = crate::prng::Rng::new(args.seed ^ 0xF4E9);
            for raw in 0..16u8 {
                let rates: Vec<u32> = if raw == 15 { freqs.iter().cloned().chain([0u32, 1, 47_999, 48_001, 0xFF_FFFF, 44_100 << 1, 375]).collect() } else { vec![0] };
                for rate in rates {
                    for aot in [2u8, 5, 29, 34, 42] {
                        let mut f = crate::boxgen::gen_esds_f(&mut rng, false, false);
                        f.aot = aot;
                        f.freq_index = raw;
                        f.freq = rate;
                        f.chan = 2;
                        let bytes = crate::refenc::serialize_one(&crate::refenc::enc_esds(&f));
                        match crate::props::boxes::decode::<mp4::verif_export::EsdsBox>(&bytes) {
                            Ok((v, _)) => {
                                let got = v.es_desc.dec_config.dec_specific.freq_index;
                                let accepted = SampleFreqIndex::try_from(got).is_ok();
                                if got != raw || accepted != (raw <= 12) {
                                    fail(&mut rep, "freq", Fail { rule: "freq_index_through_the_esds_reader", detail: json!({"raw": raw, "explicit_rate": rate, "aot": aot, "decoded_index": got, "mapping_accepts": accepted}) });
                                }
                            }
                            Err(e) => fail(&mut rep, "freq", Fail { rule: "freq_index_through_the_esds_reader", detail: json!({"raw": raw, "explicit_rate": rate, "aot": aot, "decode_error": e}) }),
                        }
                        n += 1;
                    }
                }
            }
            rep.add("freq_indices_through_the_esds_reader", n);
            rep.evals += n;
        }

        // --- track kind / media kind textual mappings
        let mut n = 0u64;
        let alphabet: Vec<u8> = (b'a'..=b'z').chain(b'0'..=b'9').chain([b' ', b'A', b'V', b'H']).collect();
        let mut check_str = |rep: &mut Report, s: &str| {
            let want_t = match s {
                "vide" => Some(TrackType::Video),
                "soun" => Some(TrackType::Audio),
                "sbtl" => Some(TrackType::Subtitle),
                _ => None,
            };
            if TrackType::try_from(s).ok() != want_t {
                rep.fail("C16", "track_type_str", "track_type_str", json!({"s": s}));
            }
            let want_m = match s {
                "h264" => Some(MediaType::H264),
                "h265" => Some(MediaType::H265),
                "vp9" => Some(MediaType::VP9),
                "aac" => Some(MediaType::AAC),
                "ttxt" => Some(MediaType::TTXT),
                _ => None,
            };
            let got = MediaType::try_from(s).ok();
            if got != want_m {
                rep.fail("C16", "media_type_str", "media_type_str", json!({"s": s}));
            }
            if let Some(m) = got {
                let back: &str = m.into();
                if back != s || m.to_string() != s {
                    rep.fail("C16", "media_type_str", "media_type_back", json!({"s": s}));
                }
            }
        };
        for l in 0..=4usize {
            let total = (alphabet.len() as u64).pow(l as u32);
            // lengths 0..3 exhaustively; length 4 exhaustively too (40^4 = 2.56M)
            for idx in 0..total {
                let mut x = idx;
                let mut s = Vec::with_capacity(l);
                for _ in 0..l {
                    s.push(alphabet[(x % alphabet.len() as u64) as usize]);
                    x /= alphabet.len() as u64;
                }
                let s = String::from_utf8(s).unwrap();
                check_str(&mut rep, &s);
                n += 1;
                if rep.too_many_fails() {
                    break;
                }
            }
        }
        for s in ["video", "Vide", "VIDE", "h264 ", "H264", "hevc", "vp09", "mp4a", "ttxt\0", "aac\0"] {
            check_str(&mut rep, s);
            n += 1;
        }
        // The string domain is unbounded, so beyond length 4 a dictionary has to stand in for
        // enumeration: names under which other tools, containers and specifications know the
        // same five media kinds and the three track kinds (ffmpeg / ffprobe codec names, sample
        // entry codes, MIME subtypes, handler names, codec-string prefixes) and their case /
        // separator variants. None of them is in the defining tables, so all must be rejected.
        let dictionary = [
            "mov_text", "tx3g", "text", "subt", "subtitle", "subtitles", "Subtitle", "timed_text", "timedtext", "3gpp-tt", "srt", "webvtt", "wvtt", "stpp", "ttml",
            "avc", "avc1", "avc3", "h.264", "h-264", "h_264", "x264", "mpeg4-avc", "AVC", "H.264", "libx264",
            "hevc", "hev1", "hvc1", "h.265", "h-265", "h_265", "x265", "HEVC", "H265", "H.265", "libx265",
            "vp09", "vp8", "vp08", "VP9", "vp9.0", "vp9 ", " vp9", "libvpx-vp9", "av1", "av01",
            "mp4a", "mp4a.40.2", "aac_lc", "aac-lc", "aaclc", "AAC", "he-aac", "aac_he", "libfdk_aac", "mp3", "opus", "ac-3", "ac3", "ec-3", "flac", "alac", "pcm",
            "video", "audio", "Video", "Audio", "vide ", "soun ", "sound", "VideoHandler", "SoundHandler", "SubtitleHandler", "hint", "meta", "tmcd", "clcp", "sdsm", "odsm",
            "h264\n", "h265\n", "aac\n", "ttxt ", " ttxt", "ttxt\t", "h2645", "h26", "vp", "aa", "ttx",
        ];
        for s in dictionary {
            check_str(&mut rep, s);
            n += 1;
        }
        rep.add("kind_strings_from_dictionary", dictionary.len() as u64);
        for (t, code, name) in [
            (TrackType::Video, b"vide", "Video"),
            (TrackType::Audio, b"soun", "Audio"),
            (TrackType::Subtitle, b"sbtl", "Subtitle"),
        ] {
            let f: FourCC = t.into();
            if &f.value != code || t.to_string() != name {
                rep.fail("C16", "track_type", "track_type_fourcc_out", json!({"t": name}));
            }
            n += 1;
        }
        rep.add("kind_strings", n);
        rep.evals += n;

        // 16.16 raw: whole u32 range is covered by shard-range loop below for shard 0 only
    }

    // 16.16 fixed point raw values: all 2^32 split over shards
    if args.want("fixed_u16_raw") {
        let mut c = lo;
        let mut n = 0u64;
        while c < hi {
            let r = c as u32;
            let f = FixedPointU16::new_raw(r);
            if f.raw_value() != r || f.value() != (r >> 16) as u16 {
                fail(&mut rep, "fixed_u16", Fail { rule: "fixed_u16_raw", detail: json!({"raw": r, "value": f.value()}) });
                if rep.too_many_fails() {
                    break;
                }
            }
            n += 1;
            c += 1;
        }
        rep.evals += n;
        rep.add("fixed_u16_raw", n);
    }

    if args.shard == 0 {
        rep.sample(json!({"mapping":"u32<->FourCC<->BoxType","case":"0x7374636f 'stco' -> BoxType::StcoBox -> 0x7374636f; 0x7374636e -> UnknownBox"}));
        rep.sample(json!({"mapping":"ISO-639 packed language","case":"0x55c4 <-> \"und\" via MdhdBox decode/encode"}));
        rep.sample(json!({"mapping":"AvcProfile","case":"(66, 0x40) -> ConstrainedBaseline; (66, 0x80) -> Baseline; (67, _) -> Err"}));
        rep.sample(json!({"mapping":"AudioObjectType","case":"10, 11, 18, 31, 47.. rejected; 1..=9, 12..=17, 19..=30, 32..=46 accepted"}));
    }
    rep.finish()
}
