//! C11 — truncated files never yield wrong data. Every proper prefix of a valid file is
//! opened with its own length; if it opens, every sample of the complete file is read: the
//! result must be an error, or identical in bytes and timing to the complete file's (a sample
//! silently reported as absent is neither).

use crate::hostile::corpus;
use crate::panicmon;
use crate::prng::{hash_str, Rng};
use crate::report::{Args, Report};
use crate::streams::{Ctl, MonReader};
use mp4::Mp4Reader;
use serde_json::json;
use std::rc::Rc;

struct RefSample {
    start: u64,
    dur: u32,
    cts: i32,
    bytes: Vec<u8>,
}

fn open(bytes: &Rc<Vec<u8>>, len: u64, init: Option<&Mp4Reader<MonReader>>) -> (Result<mp4::Result<Mp4Reader<MonReader>>, panicmon::PanicInfo>, Rc<Ctl>) {
    let ctl = Ctl::new();
    // a reader that loops instead of failing ends with an error from the stream
    ctl.budget_ops.set(50_000 + 64 * len);
    ctl.budget_bytes.set((4 << 20) + 64 * len);
    let c2 = ctl.clone();
    let data = bytes.clone();
    let r = match init {
        None => panicmon::catch(move || Mp4Reader::read_header(MonReader::new(data, c2), len)),
        Some(base) => panicmon::catch(move || base.read_fragment_header(MonReader::new(data, c2), len)),
    };
    (r, ctl)
}

/// corpus files by name; generated subjects by kind (their number is in `generated_subjects`)
fn kind_of(name: &str) -> &str {
    if name.starts_with("generated") {
        name.rsplitn(2, ' ').nth(1).unwrap_or(name)
    } else {
        name
    }
}

struct Subject {
    name: String,
    bytes: Vec<u8>,
    init: Option<Vec<u8>>,
}

pub fn run(args: &Args) -> i32 {
    let mut rep = Report::new(args, true);
    let seeds = corpus(args.seed, args.thorough());
    let mut subjects: Vec<Subject> = seeds.iter().map(|s| Subject { name: s.name.clone(), bytes: s.bytes.clone(), init: s.init.clone() }).collect();
    // generated subjects: plain movies (several tracks with interleaved chunks, movie header
    // first or last, every table form) and fragmented movies (whole stream, and segment + init)
    let ng = args.scale(4_000, 40_000);
    for g in 0..ng {
        let mut rng = Rng::derive(args.seed, 0xC11, g);
        match g % 3 {
            0 | 1 => {
                let m = crate::model::gen_movie(&mut rng, 3, if g % 7 == 0 { 30 } else { 8 }, 24);
                let fl = crate::model::gen_file_layout(&mut rng, &m);
                // half of them with the children of every stbl in a permuted order (the order
                // carries no meaning): which table holds the last bytes of the file, and so which
                // table a cut near the end falls into, must not be always the same one
                let perm_seed = rng.next_u64();
                let permute = g % 2 == 1;
                let ntr = m.tracks.len();
                let bytes = crate::model::build_plain(&m, &fl, &|top| {
                    if permute {
                        for k in 0..ntr {
                            crate::layoutx::apply(top, &crate::layoutx::Xf::Permute { path: format!("moov#0/trak#{}/mdia#0/minf#0/stbl#0", k), seed: perm_seed ^ k as u64 });
                        }
                    }
                }).ser.bytes;
                subjects.push(Subject { name: format!("generated {}movie {}", if permute { "stbl-permuted " } else { "" }, g), bytes, init: None });
            }
            _ => {
                let same_trex = rng.bool();
                let fm = crate::model::gen_frag_movie(&mut rng, 3, 2, 3, same_trex);
                let b = crate::model::build_fragmented(&fm);
                if g % 2 == 0 {
                    subjects.push(Subject { name: format!("generated fragmented movie {}", g), bytes: b.whole.bytes, init: None });
                } else {
                    subjects.push(Subject { name: format!("generated media segment {}", g), bytes: b.segment, init: Some(b.init) });
                }
            }
        }
    }
    rep.add("generated_subjects", if args.shard == 0 { ng } else { 0 });
    let mut idx = 0u64;
    for (si, seed) in subjects.iter().enumerate() {
        let whole = Rc::new(seed.bytes.clone());
        let n = whole.len();
        // the initialisation segment a media segment is opened against
        let init_reader = match &seed.init {
            Some(i) => {
                let ib = Rc::new(i.clone());
                match open(&ib, ib.len() as u64, None).0 {
                    Ok(Ok(r)) => Some(r),
                    _ => continue,
                }
            }
            None => None,
        };
        // reference: the complete file
        let mut full = match open(&whole, n as u64, init_reader.as_ref()).0 {
            Ok(Ok(r)) => r,
            _ => continue, // not a valid file for this reader (e.g. init segment opened as fragment)
        };
        let mut ids: Vec<u32> = full.tracks().keys().cloned().collect();
        ids.sort();
        let mut reference: Vec<(u32, Vec<Option<RefSample>>)> = Vec::new();
        for id in &ids {
            let cnt = full.sample_count(*id).unwrap_or(0).min(400);
            let mut v = Vec::new();
            for k in 1..=cnt {
                v.push(match full.read_sample(*id, k) {
                    Ok(Some(s)) => Some(RefSample { start: s.start_time, dur: s.duration, cts: s.rendering_offset, bytes: s.bytes.to_vec() }),
                    _ => None,
                });
            }
            reference.push((*id, v));
        }
        let total_samples: usize = reference.iter().map(|(_, v)| v.iter().filter(|x| x.is_some()).count()).sum();
        // cut points: every one (thorough, or small files); large files: every byte of the
        // non-mdat regions and a stride inside mdat
        let stride = if n > 20_000 && !args.thorough() { 97 } else { 1 };
        let mut cut = 0usize;
        while cut < n {
            idx += 1;
            let c = cut;
            cut += if stride > 1 && c > 4096 && c + 4096 < n { stride } else { 1 };
            if !args.mine(idx) {
                continue;
            }
            let id = format!("s{}:cut:{}", si, c);
            if !args.want(&id) {
                continue;
            }
            rep.begin(&id);
            let prefix = Rc::new(whole[..c].to_vec());
            let (r, ctl) = open(&prefix, c as u64, init_reader.as_ref());
            rep.add("cut_points", 1);
            match r {
                Err(p) => rep.fail("C11", &id, "panic_on_open", json!({"file": seed.name, "cut": c, "of": n, "site": p.site(), "msg": p.msg})),
                Ok(Err(_)) => {
                    if ctl.budget_hit.get() {
                        rep.fail("C11", &id, "hang_on_open", json!({"file": seed.name, "cut": c, "of": n, "ops": ctl.ops.get()}));
                    }
                    rep.add("prefix_open_failed", 1);
                    rep.cover(hash_str(&format!("{}|fail", kind_of(&seed.name))));
                }
                Ok(Ok(mut mp4)) => {
                    rep.add("prefix_opened_ok", 1);
                    let mut equal = 0u64;
                    let mut failed = 0u64;
                    'tracks: for (tid, samples) in &reference {
                        for (k, rs) in samples.iter().enumerate() {
                            let sid = k as u32 + 1;
                            let want = match rs {
                                Some(w) => w,
                                None => continue,
                            };
                            ctl.budget_ops.set(ctl.ops.get() + 50_000 + 64 * c as u64);
                            ctl.budget_bytes.set(ctl.bytes.get() + (4 << 20) + 64 * c as u64);
                            match panicmon::catch(|| mp4.read_sample(*tid, sid)) {
                                Err(p) => {
                                    rep.fail("C11", &id, "panic_on_read", json!({"file": seed.name, "cut": c, "of": n, "track": tid, "sample": sid, "site": p.site(), "msg": p.msg}));
                                    break 'tracks;
                                }
                                Ok(Ok(Some(s))) => {
                                    let same = s.bytes.as_ref() == &want.bytes[..] && s.start_time == want.start && s.duration == want.dur && s.rendering_offset == want.cts;
                                    if !same {
                                        let first = s.bytes.iter().zip(want.bytes.iter()).position(|(a, b)| a != b);
                                        rep.fail("C11", &id, "sample_differs_from_complete_file", json!({"file": seed.name, "cut": c, "of": n, "track": tid, "sample": sid,
                                            "got": {"len": s.bytes.len(), "start": s.start_time, "dur": s.duration, "cts": s.rendering_offset},
                                            "want": {"len": want.bytes.len(), "start": want.start, "dur": want.dur, "cts": want.cts}, "first_diff": first}));
                                        break 'tracks;
                                    }
                                    equal += 1;
                                }
                                Ok(Ok(None)) => {
                                    // "each sample read either fails with an error or is identical":
                                    // a sample of the complete file that the prefix reports as
                                    // ABSENT, without an error, is neither
                                    rep.fail("C11", &id, "sample_reported_absent_without_error", json!({"file": seed.name, "cut": c, "of": n, "track": tid, "sample": sid}));
                                    break 'tracks;
                                }
                                Ok(Err(_)) => {
                                    if ctl.budget_hit.get() {
                                        rep.fail("C11", &id, "hang_on_read", json!({"file": seed.name, "cut": c, "of": n, "track": tid, "sample": sid}));
                                        break 'tracks;
                                    }
                                    failed += 1;
                                }
                            }
                        }
                    }
                    rep.add("sample_reads_equal", equal);
                    rep.add("sample_reads_failed_with_an_error", failed);
                    // a non-trivial case: the prefix opened and at least one sample was decided
                    let class = if equal > 0 && failed > 0 { "mixed" } else if equal > 0 { "all_equal" } else { "none_readable" };
                    rep.cover_nt(hash_str(&format!("{}|open|{}|{}", kind_of(&seed.name), class, if total_samples > 0 { c * 8 / n.max(1) } else { 9 })));
                }
            }
            rep.end();
            if rep.too_many_fails() {
                return rep.finish();
            }
        }
        if rep.want_sample() && args.shard == 0 {
            rep.sample(json!({"file": seed.name, "length": n, "cut_stride": stride, "tracks": ids.len(), "samples_in_complete_file": total_samples}));
        }
        rep.note("files", kind_of(&seed.name));
    }
    rep.finish()
}
