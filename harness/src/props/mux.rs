//! C01 (mux -> demux fidelity), C02 (structural validity by an independent decoder),
//! C14 (configuration round trip) and C17 (muxer API totality): the same executor over
//! different history domains and oracles.

use crate::muxdrive::*;
use crate::panicmon;
use crate::prng::{hash_str, Rng};
use crate::report::{Args, Report};
use crate::streams::{Ctl, MonReader, MonWriter};
use serde_json::json;
use std::rc::Rc;

#[cfg(feature = "hooks")]
use mp4::verif_export::VerifWriterState;

/// Online monitor over the hook snapshots: invariants that any correct muxer state must
/// satisfy after every call, "rejected calls leave no trace", and abstract-state coverage.
#[cfg(feature = "hooks")]
struct StateMon {
    prev: Option<VerifWriterState>,
    prev_stream: (u64, u64),
    accepted: Vec<Vec<SampleSpec>>,
    fails: Fails,
    states: std::collections::HashSet<u64>,
}

#[cfg(feature = "hooks")]
impl StateMon {
    fn new() -> Self {
        StateMon { prev: None, prev_stream: (0, 0), accepted: Vec::new(), fails: Vec::new(), states: Default::default() }
    }

    fn observe(&mut self, i: usize, op: &Op, res: &CallRes, st: VerifWriterState, stream: (u64, u64)) {
        let mut fail = |rule: &str, v: serde_json::Value| {
            if self.fails.len() < 6 {
                self.fails.push((rule.to_string(), v));
            }
        };
        match (op, res) {
            (Op::Add(_), CallRes::Ok) => {
                self.accepted.push(Vec::new());
                if st.tracks.len() != self.accepted.len() {
                    fail("hook_track_count", json!({"op": i, "got": st.tracks.len(), "want": self.accepted.len()}));
                }
            }
            (Op::Write { track_id, s }, CallRes::Ok) => {
                let t = *track_id as usize;
                if t == 0 || t > self.accepted.len() {
                    fail("accepted_unknown_track", json!({"op": i, "track_id": track_id}));
                } else {
                    self.accepted[t - 1].push(s.clone());
                    if let Some(ts) = st.tracks.get(t - 1) {
                        let n = self.accepted[t - 1].len() as u64;
                        if ts.sample_id as u64 != n + 1 || ts.stsz_sample_count as u64 != n || ts.stts_samples != n {
                            fail("hook_counts", json!({"op": i, "track": t, "n": n, "sample_id": ts.sample_id, "stsz": ts.stsz_sample_count, "stts": ts.stts_samples}));
                        }
                        if let Some(c) = ts.ctts_samples {
                            if c != n {
                                fail("hook_ctts_count", json!({"op": i, "track": t, "n": n, "ctts": c}));
                            }
                        }
                        if ts.stsz_sample_size == 0 && ts.stsz_len as u64 != n {
                            fail("hook_stsz_len", json!({"op": i, "track": t, "n": n, "len": ts.stsz_len}));
                        }
                        // pending chunk = the last chunk_samples accepted samples
                        let cs = ts.chunk_samples as usize;
                        let acc = &self.accepted[t - 1];
                        if cs > acc.len() {
                            fail("hook_chunk_samples", json!({"op": i, "track": t, "chunk_samples": cs, "n": n}));
                        } else {
                            let want: usize = acc[acc.len() - cs..].iter().map(|x| x.size as usize).sum();
                            if want != ts.chunk_buffer_len {
                                fail("hook_chunk_buffer", json!({"op": i, "track": t, "buffer": ts.chunk_buffer_len, "want": want}));
                            }
                        }
                    }
                }
                // other tracks untouched
                if let Some(p) = &self.prev {
                    for (k, (a, b)) in p.tracks.iter().zip(st.tracks.iter()).enumerate() {
                        if k + 1 != t && a != b {
                            fail("hook_other_track_changed", json!({"op": i, "written": t, "changed": k + 1}));
                        }
                    }
                }
            }
            (Op::Write { track_id, .. }, CallRes::Err { .. }) => {
                // rejected call: no trace in the state nor on the stream
                if let Some(p) = &self.prev {
                    if *p != st {
                        fail("rejected_call_changed_state", json!({"op": i, "track_id": track_id}));
                    }
                }
                if self.prev_stream != stream {
                    fail("rejected_call_touched_stream", json!({"op": i, "before": [self.prev_stream.0, self.prev_stream.1], "after": [stream.0, stream.1]}));
                }
            }
            _ => {}
        }
        for ts in &st.tracks {
            let key = format!(
                "{}{}{}{}{}{}",
                ts.is_fixed_sample_size as u8,
                ts.ctts_entries.is_some() as u8,
                ts.stss_entries.is_some() as u8,
                (ts.chunk_samples == 0) as u8,
                ts.stsc_entries.min(4),
                (ts.stsz_sample_count.min(3))
            );
            self.states.insert(hash_str(&key));
        }
        self.prev = Some(st);
        self.prev_stream = stream;
    }
}

pub struct Outcome {
    pub run_calls: Vec<CallRes>,
    pub start: CallRes,
    pub out: Option<Vec<u8>>,
    pub ended_ok: bool,
    pub hook_fails: Fails,
    pub states: Vec<u64>,
}

pub fn execute(h: &History) -> Outcome {
    let ctl = Ctl::new();
    let w = MonWriter::new(ctl.clone());
    #[cfg(feature = "hooks")]
    let mut mon = StateMon::new();
    let run = run_history(h, w, |_i, _op, _res, _wr| {
        #[cfg(feature = "hooks")]
        {
            // stream length/position are observed through the shared control block: bytes
            // written so far and ops are monotone, so (ops, bytes) identifies "untouched"
            let st = _wr.verif_state();
            mon.observe(_i, _op, _res, st, (ctl.writes.get() + ctl.seeks.get(), ctl.bytes.get()));
        }
    });
    #[cfg(feature = "hooks")]
    let (hook_fails, states) = (mon.fails, mon.states.into_iter().collect());
    #[cfg(not(feature = "hooks"))]
    let (hook_fails, states) = (Vec::new(), Vec::new());
    Outcome {
        run_calls: run.calls,
        start: run.start,
        out: run.writer.map(|w| w.buf),
        ended_ok: run.ended_ok,
        hook_fails,
        states,
    }
}

/// symbol alphabet of the bounded-exhaustive stratum
fn ex_symbols(ts: u32) -> Vec<(u32, u32, i32, bool)> {
    let mut v = Vec::new();
    for size in [0u32, 1, 2] {
        for d in [0u32, 1, ts] {
            for c in [0i32, 5, -5] {
                for s in [true, false] {
                    v.push((size, d, c, s));
                }
            }
        }
    }
    v
}

fn ex_history(idx: u64, ntracks: u32, len: u32) -> History {
    let ts = 4u32;
    let syms = ex_symbols(ts);
    let base = syms.len() as u64 * ntracks as u64;
    let mut h = History { major: *b"isom", minor: 0, brands: vec![*b"isom"], timescale: 1000, ops: Vec::new() };
    for t in 0..ntracks {
        let media = if t == 0 { Media::Ttxt } else { Media::Hevc { w: 16, h: 16 } };
        h.ops.push(Op::Add(TrackSpec { kind: if t == 0 { 2 } else { 0 }, timescale: ts, language: "und".into(), media }));
    }
    let mut x = idx;
    for k in 0..len {
        let d = x % base;
        x /= base;
        let tr = (d / syms.len() as u64) as u32;
        let (size, dur, cts, sync) = syms[(d % syms.len() as u64) as usize];
        h.ops.push(Op::Write {
            track_id: tr + 1,
            s: SampleSpec { size, fill: 0x1000 + k as u64 * 7 + tr as u64, duration: dur, cts, sync },
        });
    }
    h.ops.push(Op::End);
    h
}

fn eval_case(prop: &str, case_id: &str, h: &History, rep: &mut Report, args: &Args) {
    rep.begin_with(case_id, &json!({"history": h.short()}));
    let o = execute(h);
    let sh = shape(h);
    let (model, rejected) = h.model();
    let nontrivial = model.iter().any(|t| t.len() >= 2);
    let hsh = hash_str(&sh);
    if nontrivial {
        rep.cover_nt(hsh);
    } else {
        rep.cover(hsh);
    }
    for s in &o.states {
        rep.note("writer_states", &format!("{:016x}", s));
    }
    if rep.verbose {
        eprintln!("history: {}", serde_json::to_string(&h.to_json()).unwrap());
        eprintln!("calls: {:?}", o.run_calls.iter().map(|c| c.tag()).collect::<Vec<_>>());
    }
    let mut fails: Fails = Vec::new();
    // any panic or unexpected error is a failure of the muxer contract in the documented domain
    if !o.start.is_ok() {
        fails.push(("write_start_failed".into(), json!({"res": o.start.tag()})));
    }
    for (i, c) in o.run_calls.iter().enumerate() {
        match c {
            CallRes::Ok => {}
            CallRes::Err { .. } if rejected.contains(&i) => {}
            other => {
                fails.push(("call_failed".into(), json!({"op": i, "res": other.tag()})));
                break;
            }
        }
    }
    for i in &rejected {
        if let Some(c) = o.run_calls.get(*i) {
            if c.is_ok() {
                fails.push(("bad_call_accepted".into(), json!({"op": i})));
            }
        }
    }
    if fails.is_empty() {
        if let Some(out) = &o.out {
            let len = out.len() as u64;
            match prop {
                "C01" => {
                    fails.extend(o.hook_fails.clone());
                    let data = Rc::new(out.clone());
                    fails.extend(check_readback(h, MonReader::plain(data), len));
                    // rejected calls leave no trace: same output as the history without them
                    if !rejected.is_empty() {
                        let h2 = h.without_rejected();
                        let o2 = execute(&h2);
                        if o2.out.as_ref() != Some(out) {
                            fails.push(("rejected_calls_left_trace".into(), json!({"rejected_ops": rejected, "len_with": out.len(), "len_without": o2.out.as_ref().map(|x| x.len())})));
                        }
                        rep.add("histories_with_rejected_calls", 1);
                    }
                }
                "C02" => {
                    fails.extend(check_structure(h, out, 0));
                    // "the output" is what the muxer writes, whatever the sink held before: one
                    // history in sixteen is muxed once more into a sink that already holds
                    // longer content (a file overwritten in place, a reused buffer); the byte
                    // range written must be exactly the output above - no gap, no shift
                    if hash_str(&sh) % 16 == 3 {
                        let extra = 1 + (hash_str(&sh) >> 8) as usize % 5000;
                        let old: Vec<u8> = (0..out.len() + extra).map(|i| 0xA0 ^ (i as u8).wrapping_mul(31)).collect();
                        let run2 = run_history(h, MonWriter::prefilled(old), |_, _, _, _| {});
                        match run2.writer {
                            Some(w) => {
                                if w.high != out.len() as u64 || w.buf[..(w.high as usize).min(w.buf.len())] != out[..] {
                                    fails.push(("output_depends_on_old_content_of_the_sink".into(), json!({"fresh_sink_len": out.len(), "highest_offset_written": w.high, "old_content_len": out.len() + extra})));
                                }
                            }
                            None => fails.push(("output_depends_on_old_content_of_the_sink".into(), json!({"why": "no output"}))),
                        }
                        rep.add("histories_muxed_into_a_prefilled_sink", 1);
                    }
                }
                "C14" => {
                    let data = Rc::new(out.clone());
                    // every other output is re-opened from a source that returns short reads
                    // (at most 1..=7 resp. 1..=4096 bytes per call, like a BufReader / pipe):
                    // what the accessors report must not depend on how the bytes arrive
                    let ctl = crate::streams::Ctl::new();
                    match len % 4 {
                        1 => { ctl.chunk.set(7); ctl.chunk_random.set(true); rep.add("outputs_reopened_from_a_short_reading_source", 1); }
                        3 => { ctl.chunk.set(4096); ctl.chunk_random.set(true); rep.add("outputs_reopened_from_a_short_reading_source", 1); }
                        _ => {}
                    }
                    fails.extend(check_config(h, MonReader::new(data, ctl), len));
                }
                _ => {}
            }
            rep.add("outputs_checked", 1);
            rep.add("samples_checked", model.iter().map(|t| t.len() as u64).sum());
            rep.max("max_output_bytes", len as f64);
        } else {
            fails.push(("no_output".into(), json!({})));
        }
    }
    if rep.want_sample() && nontrivial && (args.shard as usize) < 2 {
        rep.sample(json!({"case": case_id, "history": h.short(), "shape": sh, "output_bytes": o.out.as_ref().map(|x| x.len())}));
    }
    // known finding K1 (C14): AAC object types >= 32 cannot be encoded by the muxer
    let mut real = Vec::new();
    for (rule, detail) in fails {
        if prop == "C14" && rule == "audio_profile" {
            let tid = detail.get("track").and_then(|v| v.as_u64()).unwrap_or(0) as usize;
            if let Some(spec) = h.tracks().get(tid.wrapping_sub(1)) {
                if let Media::Aac { profile, .. } = &spec.media {
                    if *profile >= 32 {
                        rep.known("C14", "K1", "AAC object type >= 32 is not representable by the muxer's 2-byte AudioSpecificConfig (escape form missing): audio_profile differs");
                        continue;
                    }
                }
            }
        }
        real.push((rule, detail));
    }
    if let Some((rule, detail)) = real.first() {
        rep.fail(prop, case_id, rule, json!({"detail": detail, "more": real.len() - 1, "history": h.to_json()}));
    }
    rep.end();
}

pub fn run(args: &Args) -> i32 {
    let prop = args.prop.as_str();
    let mut rep = Report::new(args, true);
    let mut idx = 0u64;

    if prop == "C01" || prop == "C02" {
        // ---- bounded-exhaustive stratum
        let maxlen = if args.thorough() { 3 } else { 2 };
        for ntracks in 1..=2u32 {
            for len in 0..=maxlen {
                let base = 54u64 * ntracks as u64;
                let total = base.pow(len);
                for i in 0..total {
                    idx += 1;
                    if !args.mine(idx) {
                        continue;
                    }
                    let id = format!("ex:{}:{}:{}", ntracks, len, i);
                    if !args.want(&id) {
                        continue;
                    }
                    let h = ex_history(i, ntracks, len);
                    eval_case(prop, &id, &h, &mut rep, args);
                    if rep.too_many_fails() {
                        return rep.finish();
                    }
                }
            }
        }
        rep.add("exhaustive_histories", rep.evals);
    }

    // ---- random stratum
    let n = match prop {
        "C14" => args.scale(1_200_000, 16_000_000),
        "C02" => args.scale(640_000, 8_000_000),
        _ => args.scale(320_000, 4_000_000),
    };
    for i in 0..n {
        if !args.mine(i) {
            continue;
        }
        let id = format!("rand:{}", i);
        if !args.want(&id) {
            continue;
        }
        let mut rng = Rng::derive(args.seed, hash_str(prop) & 0xFF, i);
        let big = i % 97 == 0;
        let (mt, ms, mz) = if big { (5, 400, 65536) } else if i % 3 == 0 { (3, 60, 2048) } else { (2, 12, 64) };
        let mut h = gen_history(&mut rng, mt, ms, mz, prop != "C14");
        let mut tries = 0;
        while !representable(&h) && tries < 20 {
            h = gen_history(&mut rng, mt, ms, mz, prop != "C14");
            tries += 1;
        }
        if !representable(&h) {
            continue;
        }
        eval_case(prop, &id, &h, &mut rep, args);
        if rep.too_many_fails() {
            return rep.finish();
        }
    }

    if prop == "C01" {
        // ---- beyond the representable durations: movie timescale near 2^32, track timescale
        // 1-3, durations near 2^32, so that (sum of durations) x movie timescale / track
        // timescale leaves 64 bits after two or three samples. The statement quantifies over
        // every u32 duration and every timescale >= 1; what the header durations say there is
        // not C01's business, but the samples are: whichever calls the muxer accepts must read
        // back, and whichever it rejects must leave no trace. (The random stratum re-draws such
        // histories because the structure oracles of C02 cannot be applied to them.)
        let nb = args.scale(24_000, 300_000);
        for i in 0..nb {
            if !args.mine(i) {
                continue;
            }
            let id = format!("beyond:{}", i);
            if !args.want(&id) {
                continue;
            }
            let mut rng = Rng::derive(args.seed, 0xB1, i);
            let mut h = gen_history(&mut rng, 3, 10, 24, true);
            h.timescale = *rng.pick(&[u32::MAX, u32::MAX - 1, 1u32 << 31, 4_000_000_000, 3_000_000_019]);
            let small = *rng.pick(&[1u32, 1, 2, 3]);
            for op in h.ops.iter_mut() {
                match op {
                    Op::Add(t) if !add_must_be_rejected(t) => t.timescale = small,
                    Op::Write { s, .. } => {
                        if rng.chance(3, 4) {
                            s.duration = *rng.pick(&[u32::MAX, u32::MAX - 1, u32::MAX / 2 + 1, 4_000_000_000]);
                        }
                    }
                    _ => {}
                }
            }
            eval_beyond(&id, &h, &mut rep);
            if rep.too_many_fails() {
                return rep.finish();
            }
        }
    }
    if prop == "C14" {
        run_c14_directed(args, &mut rep);
    }
    rep.finish()
}

/// C01 outside the region where the header durations are representable: no call may panic; the
/// calls that returned an error are removed from the model ("leave no trace"), and when
/// write_end succeeded the accepted samples must read back exactly.
fn eval_beyond(case_id: &str, h: &History, rep: &mut Report) {
    rep.begin_with(case_id, &json!({"history": h.short()}));
    let o = execute(h);
    let mut fails: Fails = Vec::new();
    if let Some((i, c)) = o.run_calls.iter().enumerate().find(|(_, c)| matches!(c, CallRes::Panic(_))) {
        fails.push(("call_panicked".into(), json!({"op": i, "res": c.tag()})));
    }
    let (_, rejected) = h.model();
    for i in &rejected {
        if o.run_calls.get(*i).map_or(false, |c| c.is_ok()) {
            fails.push(("bad_call_accepted".into(), json!({"op": i})));
        }
    }
    let ended = o.run_calls.len() == h.ops.len() && o.run_calls.last().map_or(false, |c| c.is_ok());
    if fails.is_empty() && o.start.is_ok() && ended {
        if let Some(out) = &o.out {
            let eh = effective_history(h, &o.run_calls);
            fails.extend(o.hook_fails.clone());
            fails.extend(check_readback(&eh, MonReader::plain(Rc::new(out.clone())), out.len() as u64));
            rep.add("outputs_checked_beyond_the_representable_durations", if representable(h) { 0 } else { 1 });
            rep.add("calls_rejected_beyond_the_representable_durations", o.run_calls.iter().enumerate().filter(|(i, c)| !c.is_ok() && !rejected.contains(i)).count() as u64);
        }
    }
    rep.cover(hash_str(&format!("beyond|{}", shape(h))));
    for (rule, detail) in fails {
        rep.fail("C01", case_id, &rule, json!({"detail": detail, "history": h.to_json()}));
        break;
    }
    rep.end();
}

/// C14: exhaustive AAC parameter grid, exhaustive three-letter languages (thorough) and the
/// directed probe of known finding K1.
fn run_c14_directed(args: &Args, rep: &mut Report) {
    let aots = valid_aots();
    let mut k = 0u64;
    for p in &aots {
        for f in 0u8..13 {
            for c in 1u8..=7 {
                k += 1;
                if !args.mine(k) {
                    continue;
                }
                let id = format!("aac:{}:{}:{}", p, f, c);
                if !args.want(&id) {
                    continue;
                }
                let h = History {
                    major: *b"isom",
                    minor: 512,
                    brands: vec![*b"isom", *b"mp41"],
                    timescale: 1000,
                    ops: vec![
                        Op::Add(TrackSpec { kind: 1, timescale: 48000, language: "eng".into(), media: Media::Aac { bitrate: 128_000 + k as u32, profile: *p, freq: f, chan: c } }),
                        Op::Write { track_id: 1, s: SampleSpec { size: 32, fill: k, duration: 1024, cts: 0, sync: true } },
                        Op::End,
                    ],
                };
                eval_case("C14", &id, &h, rep, args);
            }
        }
    }
    rep.add("aac_grid_points", k);
    // languages
    let step = if args.thorough() { 1 } else { 7 };
    let mut k = 0u64;
    let mut n = (args.seed % step as u64) as u32;
    while n < 26 * 26 * 26 {
        k += 1;
        if args.mine(k) {
            let s: String = [(n / 676) as u8 + b'a', ((n / 26) % 26) as u8 + b'a', (n % 26) as u8 + b'a'].iter().map(|b| *b as char).collect();
            let id = format!("lang:{}", s);
            if args.want(&id) {
                let h = History {
                    major: *b"mp42",
                    minor: 0,
                    brands: vec![],
                    timescale: 600,
                    ops: vec![Op::Add(TrackSpec { kind: 2, timescale: 1000, language: s, media: Media::Ttxt }), Op::End],
                };
                eval_case("C14", &id, &h, rep, args);
            }
        }
        n += step;
    }
    rep.add("languages", k);
    let _ = panicmon::install;
}
