//! Small, targeted workload for the interpreter / sanitizer tiers (Miri, ASan, valgrind):
//! every shape of `emsg` (the crate's only `unsafe`: CStr::from_bytes_with_nul_unchecked),
//! plus one mux -> demux round trip (BytesMut / Bytes internals) and a handful of hostile
//! reader inputs. No files, no clocks, no rlimits: runs under Miri with isolation on.
//! A finding here is reported by the tool itself (UB report / sanitizer report / non-zero exit).

use crate::muxdrive::*;
use crate::prng::Rng;
use crate::refenc::{self, EmsgF};
use crate::streams::{MonReader, MonWriter};
use mp4::*;
use std::rc::Rc;

fn emsg_shapes(rng: &mut Rng) -> Vec<Vec<u8>> {
    let mut v = Vec::new();
    for version in [0u8, 1] {
        for (scheme, value, data) in [
            (&b""[..], &b""[..], 0usize),
            (b"urn:x", b"1", 3),
            (b"\xff\xfe", b"ok", 1),        // invalid UTF-8 in scheme
            (b"ok", b"\xc3\x28", 0),        // invalid UTF-8 in value
            (b"a\xe6\x97\xa5b", b"\xf0\x9f\x98\x80", 5), // multi-byte UTF-8
        ] {
            let f = EmsgF { version, flags: 0, timescale: 1000, presentation_time: rng.next_u64(), presentation_time_delta: 7, event_duration: 9, id: 1, scheme: scheme.to_vec(), value: value.to_vec(), data: rng.bytes(data) };
            let good = refenc::serialize_one(&refenc::enc_emsg(&f));
            v.push(good.clone());
            // unterminated strings: drop the trailing bytes so that no NUL follows
            for cut in [good.len() - 1, good.len().saturating_sub(data + 1), 13, 12, 9] {
                if cut <= good.len() {
                    v.push(good[..cut].to_vec());
                }
            }
            // size field smaller / larger than the content
            for s in [8u32, 12, 16, good.len() as u32 - 1, good.len() as u32 + 1, 0xFFFF_FFFF] {
                let mut b = good.clone();
                b[..4].copy_from_slice(&s.to_be_bytes());
                v.push(b);
            }
            // strings made only of NULs / no NUL anywhere
            let mut b = good.clone();
            for x in b[12..].iter_mut() {
                *x = 0;
            }
            v.push(b);
            let mut b = good.clone();
            for x in b[12..].iter_mut() {
                if *x == 0 {
                    *x = b'x';
                }
            }
            v.push(b);
        }
    }
    v
}

pub fn run(seed: u64) -> i32 {
    let mut rng = Rng::new(seed);
    let mut n = 0u64;
    // (1) emsg decoded directly and as a top-level box of a file
    let ftyp = refenc::serialize_one(&refenc::enc_ftyp(&refenc::FtypF { major: *b"isom", minor: 0, brands: vec![] }));
    for b in emsg_shapes(&mut rng) {
        let data = Rc::new(b.clone());
        let mut r = MonReader::plain(data);
        if let Ok(h) = BoxHeader::read(&mut r) {
            if let Ok(e) = EmsgBox::read_box(&mut r, h.size) {
                let _ = e.to_json();
                let mut out = Vec::new();
                let _ = e.write_box(&mut out);
            }
        }
        let mut file = ftyp.clone();
        file.extend_from_slice(&b);
        let len = file.len() as u64;
        let _ = Mp4Reader::read_header(MonReader::plain(Rc::new(file)), len);
        n += 2;
    }
    // (2) one mux -> demux round trip per media kind
    for k in 0..5u64 {
        let mut hr = Rng::new(seed ^ k);
        let mut h = gen_history(&mut hr, 1, 6, 24, false);
        h.ops.retain(|o| !matches!(o, Op::Write { s, .. } if s.size > 64));
        let run = run_history(&h, MonWriter::plain(), |_, _, _, _| {});
        if let Some(w) = run.writer {
            let len = w.buf.len() as u64;
            if let Ok(mut mp4) = Mp4Reader::read_header(MonReader::plain(Rc::new(w.buf)), len) {
                let ids: Vec<u32> = mp4.tracks().keys().cloned().collect();
                for t in ids {
                    let c = mp4.sample_count(t).unwrap_or(0);
                    for s in 0..=c + 1 {
                        let _ = mp4.read_sample(t, s);
                        n += 1;
                    }
                }
            }
        }
    }
    println!("sanit workload finished: {} library calls", n);
    0
}
