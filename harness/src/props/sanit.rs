//! Small, targeted workload for the interpreter / sanitizer tiers (Miri, ASan, valgrind):
//! every shape of `emsg` (the crate's only `unsafe`: CStr::from_bytes_with_nul_unchecked),
//! plus one mux -> demux round trip (BytesMut / Bytes internals) and a handful of hostile
//! reader inputs. No files, no clocks, no rlimits: runs under Miri with isolation on.
//! A finding here is reported by the tool itself (UB report / sanitizer report / non-zero exit).

use crate::hostile::{apply_size_count, mutate_havoc, mutate_single, seed_from_ser, size_count_specs, Seed};
use crate::muxdrive::*;
use crate::prng::Rng;
use crate::refenc::{self, EmsgF};
use crate::streams::{MonReader, MonWriter};
use mp4::*;
use std::rc::Rc;

fn emsg_shapes(rng: &mut Rng) -> Vec<Vec<u8>> {
    let mut v = Vec::new();
    for version in [0u8, 1] {
        for (scheme, value, data) in [
            (&b""[..], &b""[..], 0usize),
            (b"urn:x", b"1", 3),
            (b"\xff\xfe", b"ok", 1),        // invalid UTF-8 in scheme
            (b"ok", b"\xc3\x28", 0),        // invalid UTF-8 in value
            (b"a\xe6\x97\xa5b", b"\xf0\x9f\x98\x80", 5), // multi-byte UTF-8
        ] {
            let f = EmsgF { version, flags: 0, timescale: 1000, presentation_time: rng.next_u64(), presentation_time_delta: 7, event_duration: 9, id: 1, scheme: scheme.to_vec(), value: value.to_vec(), data: rng.bytes(data) };
            let good = refenc::serialize_one(&refenc::enc_emsg(&f));
            v.push(good.clone());
            // unterminated strings: drop the trailing bytes so that no NUL follows
            for cut in [good.len() - 1, good.len().saturating_sub(data + 1), 13, 12, 9] {
                if cut <= good.len() {
                    v.push(good[..cut].to_vec());
                }
            }
            // size field smaller / larger than the content
            for s in [8u32, 12, 16, good.len() as u32 - 1, good.len() as u32 + 1, 0xFFFF_FFFF] {
                let mut b = good.clone();
                b[..4].copy_from_slice(&s.to_be_bytes());
                v.push(b);
            }
            // strings made only of NULs / no NUL anywhere
            let mut b = good.clone();
            for x in b[12..].iter_mut() {
                *x = 0;
            }
            v.push(b);
            let mut b = good.clone();
            for x in b[12..].iter_mut() {
                if *x == 0 {
                    *x = b'x';
                }
            }
            v.push(b);
        }
    }
    v
}

/// Every read-side call on one input; no clocks, no allocator hooks (interpreter friendly).
/// Returns the number of library calls made; panics are caught and counted by the caller.
fn light_sweep(bytes: &Rc<Vec<u8>>, init: Option<&Rc<Vec<u8>>>) -> u64 {
    let mut calls = 1u64;
    let len = bytes.len() as u64;
    let opened = match init {
        None => Mp4Reader::read_header(MonReader::plain(bytes.clone()), len),
        Some(i) => match Mp4Reader::read_header(MonReader::plain(i.clone()), i.len() as u64) {
            Ok(base) => base.read_fragment_header(MonReader::plain(bytes.clone()), len),
            Err(e) => Err(e),
        },
    };
    if let Ok(mut mp4) = opened {
        calls += crate::hostile::render_all(&mp4);
        let mut ids: Vec<u32> = mp4.tracks().keys().cloned().collect();
        ids.sort();
        ids.push(0);
        for t in ids {
            let c = mp4.sample_count(t).unwrap_or(0);
            for s in (0..=c.min(5) + 1).chain([c, c.wrapping_add(1), u32::MAX]) {
                let _ = mp4.sample_offset(t, s);
                let _ = mp4.read_sample(t, s);
                calls += 2;
            }
        }
    }
    calls
}

/// Small structure-aware subjects built by the reference encoder (no file access).
fn small_subjects(rng: &mut Rng) -> Vec<Seed> {
    use crate::model::*;
    let mut v = Vec::new();
    for k in 0..3u32 {
        let m = gen_movie(rng, 2, 4, 12);
        let fl = gen_file_layout(rng, &m);
        v.push(seed_from_ser(&format!("plain{}", k), build_plain(&m, &fl, &|_| {}).ser, None));
    }
    for k in 0..3u32 {
        let same_trex = rng.bool();
        let fm = gen_frag_movie(rng, 2, 2, 2, same_trex);
        let b = build_fragmented(&fm);
        if k == 2 {
            let seg = crate::hostile::seed_from_bytes("segment", b.segment.clone(), Some(b.init.clone()));
            v.push(seg);
        } else {
            v.push(seed_from_ser(&format!("frag{}", k), b.whole, None));
        }
    }
    v
}

/// `sanit <seed> [shard nshards cases]`: shard 0 also runs the emsg shapes and the round trips.
pub fn run(seed: u64, shard: u64, nshards: u64, cases: u64) -> i32 {
    let mut rng = Rng::new(seed);
    let mut n = 0u64;
    let mut panics = 0u64;
    if shard == 0 {
    // (1) emsg decoded directly and as a top-level box of a file
    let ftyp = refenc::serialize_one(&refenc::enc_ftyp(&refenc::FtypF { major: *b"isom", minor: 0, brands: vec![] }));
    for b in emsg_shapes(&mut rng) {
        let data = Rc::new(b.clone());
        let mut r = MonReader::plain(data);
        if let Ok(h) = BoxHeader::read(&mut r) {
            if let Ok(e) = EmsgBox::read_box(&mut r, h.size) {
                let _ = e.to_json();
                let mut out = Vec::new();
                let _ = e.write_box(&mut out);
            }
        }
        let mut file = ftyp.clone();
        file.extend_from_slice(&b);
        let len = file.len() as u64;
        let _ = Mp4Reader::read_header(MonReader::plain(Rc::new(file)), len);
        n += 2;
    }
    // (2) one mux -> demux round trip per media kind
    for k in 0..5u64 {
        let mut hr = Rng::new(seed ^ k);
        let mut h = gen_history(&mut hr, 1, 6, 24, false);
        h.ops.retain(|o| !matches!(o, Op::Write { s, .. } if s.size > 64));
        let run = run_history(&h, MonWriter::plain(), |_, _, _, _| {});
        if let Some(w) = run.writer {
            let len = w.buf.len() as u64;
            if let Ok(mut mp4) = Mp4Reader::read_header(MonReader::plain(Rc::new(w.buf)), len) {
                let ids: Vec<u32> = mp4.tracks().keys().cloned().collect();
                for t in ids {
                    let c = mp4.sample_count(t).unwrap_or(0);
                    for s in 0..=c + 1 {
                        let _ = mp4.read_sample(t, s);
                        n += 1;
                    }
                }
            }
        }
    }
    }
    // (3) hostile reader inputs under the interpreter / sanitizer: field extremes, size+count
    // pairs and havoc over small generated subjects, every accessor and sample call
    let mut srng = Rng::new(seed ^ 0x5A17);
    let subjects = small_subjects(&mut srng);
    let specs: Vec<Vec<crate::hostile::SizeCountSpec>> = subjects.iter().map(size_count_specs).collect();
    let mut k = shard;
    let mut done = 0u64;
    let mut shapes = std::collections::BTreeSet::new();
    while done < cases {
        let mut crng = Rng::derive(seed, 0x5A18, k);
        let si = crng.usize_below(subjects.len());
        let s = &subjects[si];
        let (bytes, what): (Vec<u8>, &str) = match crng.below(4) {
            0 => {
                // an extreme of a pseudo-randomly chosen field
                // half of the picks go to count fields: a count that disagrees with its table is
                // what turns an unchecked index into an out-of-bounds access
                let counts: Vec<usize> = s.fields.iter().enumerate().filter(|(_, f)| f.kind == crate::refenc::Kind::Count).map(|(i, _)| i).collect();
                let fi = if !counts.is_empty() && crng.bool() { counts[crng.usize_below(counts.len())] } else { crng.usize_below(s.fields.len().max(1)) };
                let vals = s.fields.get(fi).map(|f| s.values_for(f)).unwrap_or_default();
                // values: smallest, largest, any, or one of the small ones (a count a little below /
                // above the true one keeps the box parseable and the tables inconsistent)
                let vi = match crng.below(4) { 0 => 0, 1 => vals.len().saturating_sub(1), 2 => crng.usize_below(vals.len().max(1)), _ => crng.usize_below(vals.len().min(8).max(1)) };
                match mutate_single(s, fi, vi) {
                    Some((b, _)) => (b, "single"),
                    None => (s.bytes.clone(), "unmodified"),
                }
            }
            1 => {
                let all = &specs[si];
                if all.is_empty() { (s.bytes.clone(), "unmodified") } else { (apply_size_count(s, &all[crng.usize_below(all.len())]).0, "size+count") }
            }
            2 => (mutate_havoc(s, &[], &mut crng).0, "havoc"),
            _ => {
                let cut = crng.usize_below(s.bytes.len().max(1));
                (s.bytes[..cut].to_vec(), "truncated")
            }
        };
        let data = Rc::new(bytes);
        let init = s.init.as_ref().map(|i| Rc::new(i.clone()));
        match crate::panicmon::catch(|| light_sweep(&data, init.as_ref())) {
            Ok(c) => n += c,
            Err(p) => {
                panics += 1;
                println!("PANIC under sanit: case {} ({} of {}): {} {}", k, what, s.name, p.site(), p.msg);
            }
        }
        shapes.insert(format!("{}:{}", s.name, what));
        k += nshards;
        done += 1;
    }
    println!("sanit workload finished: shard {}/{} {} hostile inputs ({} subject x mutation kinds), {} library calls, {} panics", shard, nshards, done, shapes.len(), n, panics);
    if panics > 0 { 3 } else { 0 }
}
