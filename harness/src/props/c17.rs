//! C17 — the muxer API is total: degenerate arguments and call sequences give Ok or Err,
//! never a panic; when every call succeeds the output still satisfies C01/C02.

use crate::muxdrive::*;
use crate::prng::{hash_str, Rng};
use crate::props::mux::execute;
use crate::report::{Args, Report};
use crate::streams::MonReader;
use serde_json::json;
use std::rc::Rc;

fn directed() -> Vec<(&'static str, History)> {
    let base = |ops: Vec<Op>, ts: u32| History { major: *b"isom", minor: 1, brands: vec![*b"isom"], timescale: ts, ops };
    let smp = |size: u32, d: u32| SampleSpec { size, fill: 7, duration: d, cts: 0, sync: true };
    let aac = |ts: u32| TrackSpec { kind: 1, timescale: ts, language: "und".into(), media: Media::Aac { bitrate: 1, profile: 2, freq: 3, chan: 2 } };
    let avc = |sl: usize, pl: usize| TrackSpec { kind: 0, timescale: 1000, language: "und".into(), media: Media::Avc { w: 2, h: 2, sps: vec![0x67; sl], pps: vec![0x68; pl] } };
    let mut v = vec![
        ("empty", base(vec![Op::End], 1000)),
        ("no_tracks_write", base(vec![Op::Write { track_id: 1, s: smp(3, 1) }, Op::End], 1000)),
        ("track_ts_0", base(vec![Op::Add(aac(0)), Op::Write { track_id: 1, s: smp(3, 1) }, Op::End], 1000)),
        ("movie_ts_0", base(vec![Op::Add(aac(1000)), Op::Write { track_id: 1, s: smp(3, 1) }, Op::End], 0)),
        ("end_twice", base(vec![Op::Add(aac(1000)), Op::Write { track_id: 1, s: smp(3, 1) }, Op::End, Op::End], 1000)),
        ("write_after_end", base(vec![Op::Add(aac(1000)), Op::Write { track_id: 1, s: smp(3, 1) }, Op::End, Op::Write { track_id: 1, s: smp(5, 2) }, Op::End], 1000)),
        ("write_after_end_no_end", base(vec![Op::Add(aac(1000)), Op::End, Op::Write { track_id: 1, s: smp(5, 2) }], 1000)),
        ("dur_overflow_chunk", base(vec![Op::Add(aac(1000)), Op::Write { track_id: 1, s: smp(1, 999) }, Op::Write { track_id: 1, s: smp(1, u32::MAX) }, Op::End], 1000)),
        ("tkhd_overflow", base(vec![Op::Add(aac(1)), Op::Write { track_id: 1, s: smp(1, u32::MAX) }, Op::Write { track_id: 1, s: smp(1, u32::MAX) }, Op::Write { track_id: 1, s: smp(1, u32::MAX) }, Op::End], u32::MAX)),
        ("aac_16mib", base(vec![Op::Add(aac(1000)), Op::Write { track_id: 1, s: smp(1 << 24, 1) }, Op::End], 1000)),
        ("aac_16mib_minus_1", base(vec![Op::Add(aac(1000)), Op::Write { track_id: 1, s: smp((1 << 24) - 1, 1) }, Op::End], 1000)),
    ];
    for (sl, pl) in [(0, 4), (1, 4), (2, 4), (3, 4), (4, 0), (4, 4), (65535, 4), (65536, 4), (4, 65536), (70000, 70000)] {
        v.push(("param_sets", base(vec![Op::Add(avc(sl, pl)), Op::Write { track_id: 1, s: smp(3, 1) }, Op::End], 1000)));
    }
    v
}

fn eval(case_id: &str, h: &History, classes: &[&str], rep: &mut Report, args: &Args) {
    rep.begin_with(case_id, &json!({"history": h.short()}));
    let o = execute(h);
    let mut outcomes = Vec::new();
    let mut failed = false;
    if let CallRes::Panic(p) = &o.start {
        rep.fail("C17", case_id, "panic", json!({"call": "write_start", "site": p.site(), "msg": p.msg, "history": h.to_json()}));
        failed = true;
    }
    for (i, c) in o.run_calls.iter().enumerate() {
        let kind = match &h.ops[i] {
            Op::Add(_) => "add_track",
            Op::Write { .. } => "write_sample",
            Op::End => "write_end",
        };
        if let CallRes::Panic(p) = c {
            rep.fail("C17", case_id, "panic", json!({"op": i, "call": kind, "site": p.site(), "msg": p.msg, "history": h.to_json()}));
            failed = true;
        }
        if let CallRes::Err { msg, .. } = c {
            rep.note("error_messages", &format!("{}: {}", kind, msg));
        }
        outcomes.push(format!("{}:{}", kind, match c { CallRes::Ok => "ok", CallRes::Err { .. } => "err", CallRes::Panic(_) => "panic" }));
    }
    for cl in classes {
        for oc in &outcomes {
            rep.cover_nt(hash_str(&format!("{}|{}", cl, oc)));
        }
        rep.note("degenerate_classes", cl);
    }
    if rep.verbose {
        eprintln!("history: {}", serde_json::to_string(&h.to_json()).unwrap());
        eprintln!("calls: {:?}", o.run_calls.iter().map(|c| c.tag()).collect::<Vec<_>>());
    }
    // when every call succeeded and the history was finished, the output must satisfy C01/C02
    // "every call succeeds" is read up to the add_track calls whose preconditions the history
    // violates on purpose: those must return an error, must leave no trace and must not shift
    // the ids of the tracks added after them - the oracles run on the calls that were accepted
    let all_ok = o.start.is_ok()
        && o.run_calls.len() == h.ops.len()
        && h.ops.iter().zip(o.run_calls.iter()).all(|(op, c)| c.is_ok() || (matches!(op, Op::Add(t) if add_must_be_rejected(t)) && matches!(c, CallRes::Err { io: false, .. })));
    let finished = matches!(h.ops.last(), Some(Op::End));
    if !failed && all_ok && finished && representable(h) {
        if let Some(out) = &o.out {
            let eh = effective_history(h, &o.run_calls);
            let mut fails = check_structure(&eh, out, 0);
            let data = Rc::new(out.clone());
            fails.extend(check_readback(&eh, MonReader::plain(data), out.len() as u64));
            if let Some((rule, detail)) = fails.first() {
                rep.fail("C17", case_id, &format!("all_ok_but_{}", rule), json!({"detail": detail, "more": fails.len() - 1, "classes": classes, "history": h.to_json()}));
            }
            rep.add("all_ok_outputs_checked", 1);
        }
    }
    // "Any sequence of muxer calls" includes the calls made AFTER a call has failed because the
    // sink failed: one history in three is executed once more on a sink that returns an error
    // at one pseudo-randomly chosen write or seek; the remaining calls are made regardless
    // (that is what a caller that logs the error and goes on does). Whatever they return,
    // none may panic. What the output is worth after a sink error is not this property's
    // business.
    if !failed && hash_str(case_id) % 3 == 0 {
        let total_ops = {
            // the number of stream calls of the fault-free run is not recorded by `execute`;
            // a second fault-free run on a counting sink gives it
            let ctl = crate::streams::Ctl::new();
            let _ = run_history(h, crate::streams::MonWriter::new(ctl.clone()), |_, _, _, _| {});
            ctl.ops.get()
        };
        if total_ops > 0 {
            let k = (hash_str(case_id) >> 8) % total_ops;
            let ctl = crate::streams::Ctl::new();
            ctl.fault_kind.set(crate::streams::FaultKind::Error);
            ctl.fault_at.set(Some(k));
            let run = run_history(h, crate::streams::MonWriter::new(ctl.clone()), |_, _, _, _| {});
            rep.add("histories_continued_after_a_sink_error", 1);
            if let CallRes::Panic(p) = &run.start {
                rep.fail("C17", case_id, "panic_after_sink_error", json!({"call": "write_start", "fault_at_stream_call": k, "site": p.site(), "msg": p.msg, "history": h.to_json()}));
            }
            for (i, c) in run.calls.iter().enumerate() {
                if let CallRes::Panic(p) = c {
                    rep.fail("C17", case_id, "panic_after_sink_error", json!({"op": i, "fault_at_stream_call": k, "of": total_ops, "site": p.site(), "msg": p.msg,
                        "results_before": run.calls.iter().take(i).map(|c| c.tag()).collect::<Vec<_>>(), "history": h.to_json()}));
                    break;
                }
            }
            rep.cover_nt(hash_str(&format!("sink_error|{}", run.calls.iter().filter(|c| !c.is_ok()).count().min(3))));
        }
    }
    if rep.want_sample() && args.shard == 0 && !classes.is_empty() {
        rep.sample(json!({"case": case_id, "classes": classes, "history": h.short(), "outcomes": outcomes.iter().take(12).collect::<Vec<_>>()}));
    }
    rep.end();
}

pub fn run(args: &Args) -> i32 {
    let mut rep = Report::new(args, true);
    let mut k = 0u64;
    for (name, h) in directed() {
        k += 1;
        if !args.mine(k) {
            continue;
        }
        let id = format!("dir:{}:{}", name, k);
        if !args.want(&id) {
            continue;
        }
        eval(&id, &h, &[name], &mut rep, args);
    }
    let n = args.scale(240_000, 4_000_000);
    for i in 0..n {
        if !args.mine(i) {
            continue;
        }
        let id = format!("rand:{}", i);
        if !args.want(&id) {
            continue;
        }
        let mut rng = Rng::derive(args.seed, 0x17, i);
        let (mt, ms, mz) = if i % 5 == 0 { (4, 80, 4096) } else { (2, 10, 64) };
        let mut h = gen_history(&mut rng, mt, ms, mz, true);
        let allow_huge = i % 400 == 0;
        let classes = degenerate(&mut rng, &mut h, allow_huge);
        eval(&id, &h, &classes, &mut rep, args);
        if rep.too_many_fails() {
            break;
        }
    }
    rep.finish()
}
