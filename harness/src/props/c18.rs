//! C18 — the metadata accessors return the tags the file encodes.

use crate::model::*;
use crate::model::RAW_ITEM;
use crate::panicmon;
use crate::prng::{hash_str, Rng};
use crate::readcheck::open;
use crate::report::{Args, Report};
use mp4::Metadata;
use serde_json::json;
use std::rc::Rc;

#[derive(Debug, Clone, Default, PartialEq)]
pub struct WantTags {
    pub title: Option<String>,
    pub year: Option<u32>,
    pub poster: Option<Vec<u8>>,
    pub summary: Option<String>,
}

fn gen_text(rng: &mut Rng, len_class: u64) -> String {
    let n = match len_class {
        0 => 0,
        1 => 1,
        2 => 255,
        3 => 65536,
        _ => 1 + rng.usize_below(40),
    };
    let alphabet = ["a", "B", " ", "z", "0", "\u{e9}", "\u{65e5}", "\u{1F600}", "-", "'"];
    let mut s = String::new();
    while s.len() < n {
        s.push_str(alphabet[rng.usize_below(alphabet.len())]);
    }
    while s.len() > n {
        s.pop();
    }
    // "text decoded as UTF-8" means all of it: one text in six starts with U+FEFF (the byte
    // order mark some taggers write - a character like any other here) or ends with a NUL or a
    // space (what a C-string or trimming reader would drop)
    if n >= 1 {
        match rng.below(12) {
            0 => s.insert(0, '\u{feff}'),
            1 => s.push('\0'),
            _ => {}
        }
    }
    s
}

fn unknown_item(rng: &mut Rng) -> ([u8; 4], u32, Vec<u8>) {
    // item types from the iTunes / QuickTime metadata atom list (plus a few that are no item
    // types at all): an unrelated item is usually a REAL atom of some other meaning, so the
    // dictionary matters more than random codes - a reader that gives one of them a meaning of
    // its own (a fallback, an alias) is found only by naming it
    const ATOMS: [&[u8; 4]; 64] = [
        b"\xa9too", b"\xa9alb", b"trkn", b"----", b"cpil", b"\xa9gen", b"tvsh", b"xxxx", b"free", b"ldes", b"sdes", b"aART", b"\xa9ART", b"\xa9cmt", b"\xa9grp", b"\xa9lyr",
        b"\xa9wrt", b"\xa9com", b"\xa9enc", b"\xa9mvn", b"\xa9wrk", b"\xa9des", b"\xa9dir", b"\xa9prd", b"\xa9st3", b"\xa9nrt", b"pgap", b"tmpo", b"disk", b"gnre", b"tven", b"tvsn",
        b"tves", b"tvnn", b"purd", b"pcst", b"catg", b"keyw", b"purl", b"egid", b"stik", b"rtng", b"hdvd", b"sonm", b"soar", b"soaa", b"soal", b"soco",
        b"sosn", b"apID", b"cnID", b"atID", b"plID", b"geID", b"sfID", b"akID", b"cprt", b"ownr", b"xid ", b"uuid", b"name", b"titl", b"year", b"dscp",
    ];
    let typ = **rng.pick(&ATOMS);
    // one in three unrelated items has arbitrary nested content instead of a `data` box:
    // nothing at all (a header-only item), or raw bytes
    if rng.chance(1, 3) {
        let n = *rng.pick(&[0usize, 0, 1, 7, 8, 9, 40]);
        return (typ, crate::model::RAW_ITEM, rng.bytes(n));
    }
    // arbitrary data type: unrelated items are never decoded
    let dt = *rng.pick(&[0u32, 1, 13, 14, 21, 2, 0xFFFF_FFFF]);
    let n = rng.usize_below(30);
    (typ, dt, rng.bytes(n))
}

/// Random tag set. `present` selects the subset of the four items (bit 0 title, 1 year,
/// 2 poster, 3 summary).
pub fn gen_tags_with(rng: &mut Rng, present: u32, handler_mdir: bool, place: u8) -> (Tags, WantTags) {
    let mut items: Vec<([u8; 4], u32, Vec<u8>)> = Vec::new();
    let mut want = WantTags::default();
    if present & 1 != 0 {
        let lc = rng.below(6);
        let t = gen_text(rng, lc);
        items.push((*b"\xa9nam", 1, t.as_bytes().to_vec()));
        want.title = Some(t);
    }
    if present & 2 != 0 {
        let y = match rng.below(5) {
            0 => 0,
            1 => 2008,
            2 => u32::MAX,
            3 => rng.below(3000) as u32,
            _ => rng.next_u32(),
        };
        match rng.below(8) {
            0..=2 => {
                items.push((*b"\xa9day", 1, y.to_string().into_bytes()));
                want.year = Some(y);
            }
            3..=5 => {
                items.push((*b"\xa9day", 0, y.to_be_bytes().to_vec()));
                want.year = Some(y);
            }
            6 => {
                // text that is no decimal number encodes no year: the accessor reports absence
                // (empty payloads are part of the quantified space)
                let t: &[u8] = *rng.pick(&[&b""[..], b"", b"abc", b"20x8", b"2008-05-01", b" ", b"-1", b"99999999999",
                    "\u{4ee4}\u{548c}2\u{5e74}5\u{6708}".as_bytes(), "20\u{e9}8".as_bytes(), "\u{ff12}\u{ff10}\u{ff10}\u{ff18}".as_bytes(), "2\u{e9}08-05".as_bytes(), b"\xff\xfe20", "\u{feff}2008".as_bytes()]);
                items.push((*b"\xa9day", 1, t.to_vec()));
                want.year = None;
            }
            _ => {
                // a binary payload that is not the 4-byte form encodes no year either ("all
                // payload lengths"): shorter, longer (the year in the first / last four bytes,
                // zero padded, the decimal digits tagged binary), empty
                let b: Vec<u8> = match rng.below(7) {
                    0 => Vec::new(),
                    1 => y.to_be_bytes()[..1 + rng.usize_below(3)].to_vec(),
                    2 => { let mut v = y.to_be_bytes().to_vec(); v.push(0); v }
                    3 => { let mut v = vec![0u8; 4]; v.extend_from_slice(&y.to_be_bytes()); v }
                    4 => { let mut v = y.to_be_bytes().to_vec(); v.extend_from_slice(&[0; 4]); v }
                    5 => y.to_string().into_bytes().into_iter().chain(std::iter::once(b'1')).collect::<Vec<u8>>(),
                    _ => { let n = 5 + rng.usize_below(12); rng.bytes(n) }
                };
                let b = if b.len() == 4 { vec![] } else { b };
                items.push((*b"\xa9day", 0, b));
                want.year = None;
            }
        }
    }
    if present & 4 != 0 {
        let n = *rng.pick(&[0usize, 1, 255, 65536, 1000, 17]);
        let p = rng.bytes(n);
        items.push((*b"covr", *rng.pick(&[13u32, 13, 0]), p.clone()));
        want.poster = Some(p);
    }
    if present & 8 != 0 {
        let lc = rng.below(6);
        let t = gen_text(rng, lc);
        items.push((*b"desc", 1, t.as_bytes().to_vec()));
        want.summary = Some(t);
    }
    rng.shuffle(&mut items);
    // unrelated items before / between / after
    let extra = rng.below(4);
    for _ in 0..extra {
        let pos = rng.usize_below(items.len() + 1);
        items.insert(pos, unknown_item(rng));
    }
    let handler = if handler_mdir { *b"mdir" } else { *rng.pick(&[*b"mdta", *b"ID32", *b"vide", *b"mdiR"]) };
    let meta_fullbox = rng.chance(2, 3);
    // header form of the item boxes: any item (known or unrelated) may use the 64-bit size header
    let large_items: Vec<bool> = items.iter().map(|_| rng.chance(1, 5)).collect();
    let tags = Tags { items, handler, meta_fullbox, hdlr_first: if meta_fullbox { rng.chance(2, 3) } else { true }, place, udta_extra: rng.bool(), large_items };
    if !handler_mdir || place != 0 {
        want = WantTags::default();
    }
    (tags, want)
}

pub fn gen_tags(rng: &mut Rng, mdir: bool) -> Tags {
    let present = rng.below(16) as u32;
    gen_tags_with(rng, present, mdir, 0).0
}

fn eval(id: &str, m: &Movie, want: &WantTags, shape: &str, rep: &mut Report, args: &Args) {
    rep.begin(id);
    // one movie in eight ends its user-data box with the QuickTime terminator (a 32-bit zero
    // after the last item of udta, counted in its size): real .mov / .m4v files have it, and
    // the tags they carry are tags "the file encodes" all the same. Half of those have the
    // movie box last, so that the terminator is the end of the file.
    let hid = crate::prng::hash_str(id);
    let terminator = hid % 8 == 3;
    let moov_first = !(terminator && (hid >> 8) % 2 == 0);
    let fl = FileLayout { moov_first, chunk_order: m.tracks.iter().enumerate().flat_map(|(ti, t)| (0..t.layout.chunks.len()).map(move |c| (ti, c))).collect(), gaps: vec![], mdat_large: false, mdat_to_end: false, free_between: false };
    let built = build_plain(m, &fl, &|top| {
        if terminator {
            for b in top.iter_mut().filter(|b| &b.typ == b"moov") {
                if let Some(udta) = b.find_mut(&[b"udta"]) {
                    udta.spare = vec![0u8; 4];
                }
            }
        }
    });
    if terminator && m.tags.as_ref().map_or(false, |t| t.place == 0 || t.place == 2) {
        rep.add(if moov_first { "movies_with_a_terminated_udta" } else { "movies_with_a_terminated_udta_at_the_end_of_the_file" }, 1);
    }
    let bytes = Rc::new(built.ser.bytes);
    let mut fails = Vec::new();
    match open(&bytes) {
        Ok(mp4) => {
            let r = panicmon::catch(|| {
                let md = mp4.metadata();
                WantTags { title: md.title().map(|c| c.to_string()), year: md.year(), poster: md.poster().map(|p| p.to_vec()), summary: md.summary().map(|c| c.to_string()) }
            });
            match r {
                Ok(got) => {
                    if got.title != want.title {
                        fails.push(("title", json!({"got": got.title.as_ref().map(|s| s.chars().take(40).collect::<String>()), "want": want.title.as_ref().map(|s| s.chars().take(40).collect::<String>())})));
                    }
                    if got.year != want.year {
                        fails.push(("year", json!({"got": got.year, "want": want.year})));
                    }
                    if got.poster != want.poster {
                        fails.push(("poster", json!({"got_len": got.poster.as_ref().map(|p| p.len()), "want_len": want.poster.as_ref().map(|p| p.len())})));
                    }
                    if got.summary != want.summary {
                        fails.push(("summary", json!({"got": got.summary.as_ref().map(|s| s.chars().take(40).collect::<String>()), "want": want.summary.as_ref().map(|s| s.chars().take(40).collect::<String>())})));
                    }
                }
                Err(p) => fails.push(("reader_panic", json!({"site": p.site(), "msg": p.msg}))),
            }
        }
        Err((r, d)) => fails.push((if r == "reader_panic" { "reader_panic" } else { "open_error" }, d)),
    }
    // the second way to open a movie: an initialisation segment with this very user data, and a
    // media segment opened against it - the segment's reader answers for the same movie
    if fails.is_empty() && hash_str(id) % 8 == 5 {
        let mut frng = Rng::new(hash_str(id));
        let mut fm = crate::model::gen_frag_movie(&mut frng, 2, 2, 2, true);
        fm.movie.tags = m.tags.clone();
        let b = crate::model::build_fragmented(&fm);
        let init = Rc::new(b.init.clone());
        let seg = Rc::new(b.segment.clone());
        let r = panicmon::catch(|| -> Result<WantTags, String> {
            let base = mp4::Mp4Reader::read_header(crate::streams::MonReader::plain(init.clone()), init.len() as u64).map_err(|e| format!("init: {}", e))?;
            let s = base.read_fragment_header(crate::streams::MonReader::plain(seg.clone()), seg.len() as u64).map_err(|e| format!("segment: {}", e))?;
            let md = s.metadata();
            Ok(WantTags { title: md.title().map(|c| c.to_string()), year: md.year(), poster: md.poster().map(|p| p.to_vec()), summary: md.summary().map(|c| c.to_string()) })
        });
        match r {
            Ok(Ok(got)) => {
                if got.title != want.title || got.year != want.year || got.poster != want.poster || got.summary != want.summary {
                    fails.push(("metadata_through_a_media_segment_reader", json!({"title_equal": got.title == want.title, "year": [got.year, want.year], "poster_equal": got.poster == want.poster, "summary_equal": got.summary == want.summary})));
                }
            }
            Ok(Err(e)) => fails.push(("metadata_through_a_media_segment_reader", json!({"open": e}))),
            Err(p) => fails.push(("reader_panic", json!({"site": p.site(), "msg": p.msg, "mode": "segment"}))),
        }
        rep.add("cases_also_read_through_a_media_segment_reader", 1);
    }
    rep.cover_nt(hash_str(shape));
    if rep.want_sample() && args.shard == 0 {
        rep.sample(json!({"case": id, "shape": shape, "items": m.tags.as_ref().map(|t| t.items.iter().map(|(ty, dt, p)| format!("{}:{}:{}B", String::from_utf8_lossy(ty), dt, p.len())).collect::<Vec<_>>()), "want_year": want.year, "file_bytes": bytes.len()}));
    }
    if let Some((rule, detail)) = fails.first() {
        rep.fail("C18", id, rule, json!({"detail": detail, "shape": shape, "tags": format!("{:?}", m.tags.as_ref().map(|t| (t.handler, t.meta_fullbox, t.hdlr_first, t.place, t.items.iter().map(|(ty, dt, p)| (String::from_utf8_lossy(ty).to_string(), *dt, p.len())).collect::<Vec<_>>())))}));
    }
    rep.end();
}

pub fn run(args: &Args) -> i32 {
    let mut rep = Report::new(args, true);
    let mut idx = 0u64;
    let reps = args.scale(4_000, 60_000);
    for present in 0..16u32 {
        for mdir in [true, false] {
            for place in 0..4u8 {
                for r in 0..reps {
                    idx += 1;
                    if !args.mine(idx) {
                        continue;
                    }
                    let id = format!("tags:{}:{}:{}:{}", present, mdir, place, r);
                    if !args.want(&id) {
                        continue;
                    }
                    let mut rng = Rng::derive(args.seed, 0xC18, idx);
                    let mut m = gen_movie(&mut rng, 2, 4, 16);
                    let (mut tags, want) = gen_tags_with(&mut rng, present, mdir, place);
                    // directed dimension: an unrelated item with no content at all (a header-only,
                    // 8-byte box), with raw bytes, or with a foreign data box, placed first / in the
                    // middle / last - cycled deterministically so that every tag subset meets each
                    let lead: Option<(u32, Vec<u8>)> = match r % 4 {
                        1 => Some((RAW_ITEM, vec![])),
                        2 => Some((RAW_ITEM, vec![0x11; 5])),
                        3 => Some((14, vec![1, 2, 3])),
                        _ => None,
                    };
                    if let Some((dt, payload)) = lead {
                        let pos = match (r / 4) % 3 {
                            0 => 0,
                            1 => tags.items.len() / 2,
                            _ => tags.items.len(),
                        };
                        tags.items.insert(pos, (*b"zzzz", dt, payload));
                    }
                    let raw = tags.items.iter().filter(|i| i.1 == crate::model::RAW_ITEM).map(|i| if i.2.is_empty() { 2 } else { 1 }).max().unwrap_or(0);
                    let shape = format!("p{:04b} mdir{} place{} full{} hdlr1st{} extra{} raw{} enc{}{}", present, mdir as u8, place, tags.meta_fullbox as u8, tags.hdlr_first as u8,
                        tags.items.len() as u32 - present.count_ones(), raw, tags.items.iter().find(|i| &i.0 == b"\xa9day").map(|i| i.1).unwrap_or(9), if present & 2 != 0 && want.year.is_none() && mdir && place == 0 { "nonnum" } else { "" });
                    m.tags = Some(tags);
                    eval(&id, &m, &want, &shape, &mut rep, args);
                    if rep.too_many_fails() {
                        return rep.finish();
                    }
                }
            }
        }
    }
    // movies without any metadata
    for r in 0..reps {
        idx += 1;
        if !args.mine(idx) {
            continue;
        }
        let mut rng = Rng::derive(args.seed, 0xC18F, r);
        let m = gen_movie(&mut rng, 2, 4, 16);
        eval(&format!("notags:{}", r), &m, &WantTags::default(), "no-udta", &mut rep, args);
    }
    rep.finish()
}
