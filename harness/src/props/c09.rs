//! C09 — sample lookup in fragmented files follows movie-fragment semantics, both for a single
//! stream (init + fragments) and for a media segment opened against an initialisation segment.

use crate::model::*;
use crate::panicmon;
use crate::prng::{hash_str, Rng};
use crate::readcheck::*;
use crate::report::{Args, Report};
use crate::streams::MonReader;
use mp4::Mp4Reader;
use serde_json::json;
use std::rc::Rc;

fn run_shape(fm: &FragMovie, fi: usize, r: &Run) -> String {
    format!(
        "f{} base{:?}{} tfhdD{} per{} cts{} v{} off{}{} n{} trexD{}",
        fi.min(2),
        r.base,
        if r.also_default_base_flag { "+dbim" } else { "" },
        r.tfhd_duration.is_some() as u8,
        r.per_sample_durations as u8,
        r.cts_present as u8,
        r.tfdt_v1 as u8,
        r.data_offset.is_some() as u8,
        if r.negative_offset { "neg" } else { "" },
        r.samples.len().min(3),
        (fm.trex[r.track].0 != 0) as u8
    )
}

pub fn describe(fm: &FragMovie) -> serde_json::Value {
    json!({
        "tracks": fm.movie.tracks.iter().map(|t| json!({"id": t.id, "codec": format!("{:?}", t.codec)})).collect::<Vec<_>>(),
        "trex": fm.trex,
        "styp": fm.styp,
        "fragments": fm.fragments.iter().map(|f| json!(f.runs.iter().map(|r| json!({
            "track": r.track, "n": r.samples.len(), "base": format!("{:?}", r.base), "tfhd_duration": r.tfhd_duration,
            "per_sample_durations": r.per_sample_durations, "cts": r.cts_present, "tfdt_v1": r.tfdt_v1, "tfdt": r.base_decode_time,
            "data_offset": r.data_offset, "negative": r.negative_offset,
            "samples_head": r.samples.iter().take(4).map(|s| json!([s.size, s.delta, s.cts])).collect::<Vec<_>>(),
        })).collect::<Vec<_>>())).collect::<Vec<_>>(),
    })
}

/// Known finding K2: the movie extends box keeps a single trex, so with several tracks whose
/// trex default durations differ, a run that takes its duration from trex may be wrong.
fn k2_trigger(fm: &FragMovie) -> bool {
    let distinct: std::collections::HashSet<u32> = fm.trex.iter().map(|t| t.0).collect();
    distinct.len() > 1
        && fm.fragments.iter().any(|f| f.runs.iter().any(|r| !r.per_sample_durations && r.tfhd_duration.is_none() && !r.samples.is_empty()))
}

fn eval(id: &str, fm: &FragMovie, rep: &mut Report, args: &Args) {
    eval_x(id, fm, rep, args, None)
}

/// `large`: Some(seed) gives a pseudo-random third of the boxes INSIDE every movie fragment
/// box (mfhd, traf, tfhd, tfdt, trun) the 64-bit size header; nothing else changes.
fn eval_x(id: &str, fm: &FragMovie, rep: &mut Report, args: &Args, large: Option<u64>) {
    rep.begin(id);
    allow_hybrid(true);
    if fm.styp && fm.with_mehd {
        rep.add("hybrid_movies_with_samples_in_the_movie_box", 1);
    }
    let b = build_fragmented_x(fm, &|_| {}, &|bx| {
        if let Some(s) = large {
            if &bx.typ == b"moof" {
                crate::layoutx::mark_large_in(bx, s, 3);
            }
        }
    });
    allow_hybrid(false);
    if large.is_some() {
        rep.add("movies_with_64bit_headers_inside_moof", 1);
    }
    let ids: Vec<u32> = fm.movie.tracks.iter().map(|t| t.id).collect();
    let opts = Opts { compare_sync: false, bytes_from_file: false };
    let mut fails = Vec::new();
    // (a) one stream
    let whole = Rc::new(b.whole.bytes.clone());
    match open(&whole) {
        Ok(mut mp4) => {
            for (r, d) in check_samples(&mut mp4, &ids, &b.expect_whole, &opts) {
                fails.push((format!("stream:{}", r), d));
            }
        }
        Err((r, d)) => fails.push((format!("stream:{}", r), d)),
    }
    // (b) init segment + media segment
    let init = Rc::new(b.init.clone());
    match open(&init) {
        Ok(base) => {
            let seg = Rc::new(b.segment.clone());
            let len = seg.len() as u64;
            let segc = seg.clone();
            match panicmon::catch(|| base.read_fragment_header(MonReader::plain(segc), len)) {
                Ok(Ok(mut mp4)) => {
                    for (r, d) in check_samples(&mut mp4, &ids, &b.expect_segment, &opts) {
                        fails.push((format!("segment:{}", r), d));
                    }
                }
                Ok(Err(e)) => fails.push(("segment:open_error".into(), json!({"err": e.to_string()}))),
                Err(p) => fails.push(("segment:reader_panic".into(), json!({"site": p.site(), "msg": p.msg}))),
            }
            // (c) the same media segment as a byte range of a larger resource (init segment and
            // media segment in one file, the caller seeks to the segment and passes its end):
            // everything that is relative to the movie fragment moves by the segment's position.
            // Explicit base data offsets are absolute by definition, so movies that use them
            // are left out of this mode.
            let no_explicit = fm.fragments.iter().all(|f| f.runs.iter().all(|r| r.base != BaseMode::Explicit));
            if no_explicit {
                let p = b.init.len() as u64;
                let mut both = b.init.clone();
                both.extend_from_slice(&b.segment);
                let end = both.len() as u64;
                let data = Rc::new(both);
                let shifted: Vec<Vec<Expect>> = b.expect_segment.iter().map(|v| v.iter().map(|e| Expect { offset: e.offset + p, size: e.size, fill: e.fill, start: e.start, delta: e.delta, cts: e.cts, sync: e.sync }).collect()).collect();
                match panicmon::catch(|| {
                    use std::io::Seek;
                    let mut r = MonReader::plain(data.clone());
                    let _ = r.seek(std::io::SeekFrom::Start(p));
                    base.read_fragment_header(r, end)
                }) {
                    Ok(Ok(mut mp4)) => {
                        for (r, d) in check_samples(&mut mp4, &ids, &shifted, &opts) {
                            fails.push((format!("segment_at_offset:{}", r), d));
                        }
                    }
                    Ok(Err(e)) => fails.push(("segment_at_offset:open_error".into(), json!({"err": e.to_string(), "position": p}))),
                    Err(pn) => fails.push(("segment_at_offset:reader_panic".into(), json!({"site": pn.site(), "msg": pn.msg}))),
                }
                rep.add("segments_also_opened_at_a_non_zero_position", 1);
            }
            let _: &Mp4Reader<MonReader> = &base;
        }
        Err((r, d)) => fails.push((format!("init:{}", r), d)),
    }
    let mut nontrivial = false;
    for (fi, f) in fm.fragments.iter().enumerate() {
        for r in &f.runs {
            let h = hash_str(&run_shape(fm, fi, r));
            if r.samples.len() >= 2 || fi > 0 {
                rep.cover_nt(h);
                nontrivial = true;
            } else {
                rep.cover(h);
            }
        }
    }
    rep.add("samples_checked", 2 * b.expect_whole.iter().map(|v| v.len() as u64).sum::<u64>());
    if rep.want_sample() && nontrivial && args.shard < 2 {
        rep.sample(json!({"case": id, "movie": describe(fm), "stream_bytes": whole.len(), "segment_bytes": b.segment.len()}));
    }
    if rep.verbose {
        eprintln!("{}", serde_json::to_string_pretty(&describe(fm)).unwrap());
    }
    let k2 = k2_trigger(fm);
    let mut real = Vec::new();
    for (rule, detail) in fails {
        if k2 && (rule.ends_with("sample_duration") || rule.ends_with("sample_start_time")) {
            rep.known("C09", "K2", "several tracks with different trex default durations: a run that defaults its duration from trex gets another track's default (MvexBox keeps one trex)");
            continue;
        }
        real.push((rule, detail));
    }
    if let Some((rule, detail)) = real.first() {
        rep.fail("C09", id, rule, json!({"detail": detail, "more": real.len() - 1, "movie": describe(fm)}));
    }
    rep.end();
}

/// Exhaustive flag lattice for <= 2 fragments x <= 2 samples per run, one track.
fn lattice(args: &Args, rep: &mut Report) {
    let mut idx = 0u64;
    for nfrag in 1..=2usize {
        for nsamp in 0..=2u32 {
            for base in [BaseMode::Explicit, BaseMode::DefaultBaseIsMoof, BaseMode::Neither] {
                for bits in 0..64u32 {
                    idx += 1;
                    if !args.mine(idx) {
                        continue;
                    }
                    let id = format!("lat:{}:{}:{:?}:{}", nfrag, nsamp, base, bits);
                    if !args.want(&id) {
                        continue;
                    }
                    let mut rng = Rng::derive(args.seed, 0xC09E, idx);
                    let tfhd_d = bits & 1 != 0;
                    let per = bits & 2 != 0;
                    let cts = bits & 4 != 0;
                    let v1 = bits & 8 != 0;
                    let off = bits & 16 != 0;
                    let neg = bits & 32 != 0 && base == BaseMode::Explicit;
                    let mut movie = gen_movie(&mut rng, 1, 0, 8);
                    movie.tracks[0].id = 1;
                    let mut fragments = Vec::new();
                    let mut t0 = 0u64;
                    for f in 0..nfrag {
                        let samples: Vec<MSample> = (0..nsamp).map(|k| MSample { size: 1 + (k + f as u32) % 3, fill: rng.next_u64(), delta: 100 + k * 11 + f as u32, cts: if cts { (k as i32 - 1) * 5 } else { 0 }, sync: k == 0 }).collect();
                        let bdt = if v1 { (1u64 << 32) + 7 + t0 } else { 1000 + t0 };
                        fragments.push(Fragment {
                            runs: vec![Run { track: 0, samples, base, tfhd_duration: if tfhd_d { Some(333) } else { None }, per_sample_durations: per, cts_present: cts, tfdt_v1: v1,
                                base_decode_time: bdt, data_offset: if off { Some(5) } else { None }, negative_offset: neg, tfhd_default_size: false, trun_sample_flags: false, first_sample_flags: false, also_default_base_flag: bits & 1 != 0 && base == BaseMode::Explicit, no_trun: false }],
                            moof_large: false,
                        });
                        t0 += 5000;
                    }
                    let fm = FragMovie { movie, trex: vec![(777, 0, 0)], fragments, styp: bits & 1 != 0, with_mehd: bits & 2 != 0 };
                    eval(&id, &fm, rep, args);
                    if rep.too_many_fails() {
                        return;
                    }
                }
            }
        }
    }
    rep.add("lattice_cases_total", idx);
}

pub fn run(args: &Args) -> i32 {
    let mut rep = Report::new(args, true);
    lattice(args, &mut rep);
    if rep.too_many_fails() {
        return rep.finish();
    }
    let n = args.scale(640_000, 8_000_000);
    for i in 0..n {
        if !args.mine(i) {
            continue;
        }
        let id = format!("rand:{}", i);
        if !args.want(&id) {
            continue;
        }
        let mut rng = Rng::derive(args.seed, 0xC09, i);
        // scale: every 4000th movie has runs of up to 1500 samples (tables beyond any batch or
        // buffer size a reader may use: 341 x 12, 512 x 8, 1024 x 4 bytes ...)
        let (mf, mt, mr) = if i % 4000 == 7 { (3, 2, 1500) } else if i % 20 == 0 { (6, 3, 40) } else { (3, 2, 6) };
        if i % 4000 == 7 {
            rep.add("movies_with_long_runs", 1);
        }
        // random mode stays outside the K2 region: all tracks share the trex defaults
        let fm = gen_frag_movie(&mut rng, mf, mt, mr, true);
        let large = if i % 6 == 5 { Some(rng.next_u64()) } else { None };
        eval_x(&id, &fm, &mut rep, args, large);
        if rep.too_many_fails() {
            return rep.finish();
        }
    }
    // directed probe of K2
    if args.shard == 0 && args.want("probe:K2") {
        let mut rng = Rng::new(42);
        let mut fm = gen_frag_movie(&mut rng, 1, 1, 1, true);
        let t2 = { let mut t = fm.movie.tracks[0].clone(); t.id = 2; t };
        fm.movie.tracks[0].id = 1;
        fm.movie.tracks.push(t2);
        fm.trex = vec![(10, 0, 0), (20, 0, 0)];
        let mk = |track: usize, rng: &mut Rng| Run { track, samples: (0..3).map(|k| MSample { size: 4, fill: rng.next_u64(), delta: 0, cts: 0, sync: k == 0 }).collect(), base: BaseMode::DefaultBaseIsMoof,
            tfhd_duration: None, per_sample_durations: false, cts_present: false, tfdt_v1: false, base_decode_time: 0, data_offset: Some(0), negative_offset: false, tfhd_default_size: false, trun_sample_flags: false, first_sample_flags: false, also_default_base_flag: false, no_trun: false };
        fm.fragments = vec![Fragment { runs: vec![mk(0, &mut rng), mk(1, &mut rng)], moof_large: false }];
        fm.styp = false;
        eval("probe:K2", &fm, &mut rep, args);
    }
    rep.finish()
}
