//! C13 — 32-bit to 64-bit transitions in the muxer are lossless. The real muxer writes into a
//! sparse Write+Seek+Read stream (large payloads are verified while written and kept as
//! run-length extents), so > 4 GiB outputs cost memory bandwidth, not memory. Scenarios land
//! just below / at / above each 2^32 boundary; the output is judged by the independent
//! decoder (C02 oracle) and read back through the real reader (C01 oracle).

use crate::muxdrive::*;
use crate::prng::{hash_str, Rng};
use crate::report::{Args, Report};
use crate::streams::SparseStream;
use serde_json::json;
use std::io::{Seek, SeekFrom};

const B: u32 = 64 << 20;

fn track(kind: usize, ts: u32) -> TrackSpec {
    let media = match kind % 5 {
        0 => Media::Avc { w: 1920, h: 1080, sps: vec![0x67, 100, 0, 40, 1, 2], pps: vec![0x68, 1, 2, 3] },
        1 => Media::Hevc { w: 3840, h: 2160 },
        2 => Media::Vp9 { w: 640, h: 480 },
        3 => Media::Aac { bitrate: 320_000, profile: 2, freq: 3, chan: 2 },
        _ => Media::Ttxt,
    };
    let k = match kind % 5 {
        0 | 1 | 2 => 0,
        3 => 1,
        _ => 2,
    };
    TrackSpec { kind: k, timescale: ts, language: "eng".into(), media }
}

struct Scenario {
    name: String,
    side: &'static str,
    start_pos: u64,
    h: History,
}

fn base(ops: Vec<Op>, ts: u32) -> History {
    // ftyp = 8 + 8 + 4*2 = 24 bytes; mdat header + wide = 16 bytes; first chunk at start + 40
    History { major: *b"isom", minor: 512, brands: vec![*b"isom", *b"mp42"], timescale: ts, ops }
}

fn big(size: u32, fill: u64, dur: u32) -> SampleSpec {
    SampleSpec { size, fill, duration: dur, cts: 0, sync: true }
}

/// ops writing exactly `payload` bytes as full-chunk samples (one chunk per sample: the
/// duration equals the timescale) on track 1, optionally followed by `tail` small samples.
fn volume_ops(kind: usize, payload: u64, rng: &mut Rng) -> Vec<Op> {
    let mut ops = vec![Op::Add(track(kind, 1000))];
    let mut left = payload;
    let mut k = 0u64;
    while left > 0 {
        // vary the bulk size a little so that samples are distinguishable by length as well
        let mut sz = (B as u64 - (k % 7) * 4096).min(left);
        if left - sz > 0 && left - sz < 16 {
            sz -= 16; // never leave a remainder too small for a distinct tail
        }
        ops.push(Op::Write { track_id: 1, s: big(sz as u32, rng.next_u64(), 1000) });
        left -= sz;
        k += 1;
    }
    ops
}

fn scenarios(kind: usize, seed: u64, thorough: bool) -> Vec<Scenario> {
    let mut v = Vec::new();
    let mut rng = Rng::new(seed ^ 0xC13);
    let two32: u64 = 1 << 32;
    // ---- mdat size boundary (mdat size = 16 + payload)
    let mut mdat_targets: Vec<(u64, &'static str)> = vec![(two32 - 1, "below"), (two32, "at")];
    if thorough {
        mdat_targets.push((two32 + 1, "above"));
        mdat_targets.push((two32 - 2, "below"));
        mdat_targets.push((two32 + (B as u64) * 3 + 12345, "above"));
    }
    for (t, side) in mdat_targets {
        let mut ops = volume_ops(kind, t - 16, &mut rng);
        ops.push(Op::End);
        v.push(Scenario { name: format!("mdat_size={}", t), side, start_pos: 0, h: base(ops, 1000) });
    }
    // ---- last chunk offset boundary by volume: first chunk at 40; a second track's chunk
    // must start exactly at the target offset
    let off_targets: Vec<(u64, &'static str)> = if thorough {
        vec![(two32 - 1, "below"), (two32, "at"), (two32 + 1, "above")]
    } else {
        vec![(two32, "at")]
    };
    for (t, side) in off_targets {
        let mut ops = volume_ops(kind, t - 40, &mut rng);
        ops.insert(1, Op::Add(track(kind + 1, 90000)));
        ops.push(Op::Write { track_id: 2, s: SampleSpec { size: 100, fill: 99, duration: 90000, cts: 7, sync: false } });
        ops.push(Op::Write { track_id: 1, s: big(300, 5, 1000) });
        ops.push(Op::End);
        v.push(Scenario { name: format!("chunk_offset_by_volume={}", t), side, start_pos: 0, h: base(ops, 1000) });
    }
    // ---- chunk offsets at/beyond 2^32 because the output starts at a non-zero position
    for (delta, side) in [(41i64, "below"), (40, "at"), (39, "above"), (0, "above"), (-5000, "above")] {
        // first chunk offset = start + 40
        let start = (two32 as i64 - 1 - delta + 40 - 40) as u64; // first chunk at start+40 = 2^32-1-delta+40
        let first_chunk = start + 40;
        let side2 = if first_chunk + 0 <= u32::MAX as u64 { "below_or_at" } else { "beyond" };
        let ops = vec![
            Op::Add(track(kind, 1000)),
            Op::Add(track(kind + 2, 48000)),
            Op::Write { track_id: 1, s: big(10, 1, 1000) },
            Op::Write { track_id: 2, s: big(20, 2, 48000) },
            Op::Write { track_id: 1, s: big(30, 3, 500) },
            Op::Write { track_id: 2, s: big(0, 4, 100) },
            Op::End,
        ];
        let _ = side2;
        v.push(Scenario { name: format!("start_position={}", start), side, start_pos: start, h: base(ops, 1000) });
    }
    // ---- durations: media header
    for (total, side) in [(two32 - 1, "below"), (two32, "at"), (two32 + 1, "above")] {
        let a = (total / 2) as u32;
        let b = (total - a as u64) as u32;
        let ops = vec![
            Op::Add(track(kind, 1000)),
            Op::Write { track_id: 1, s: big(5, 1, a) },
            Op::Write { track_id: 1, s: big(6, 2, b) },
            Op::End,
        ];
        v.push(Scenario { name: format!("mdhd_duration={}", total), side, start_pos: 0, h: base(ops, 1000) });
    }
    // ---- durations: track/movie header independently of the media header
    for (tts, mts, total, what) in [
        (1000u32, 2000u32, (1u64 << 31) - 1, "tkhd_below_mdhd_below"),
        (1000, 2000, 1 << 31, "tkhd_at_mdhd_below"),
        (1000, 2000, (1 << 31) + 1, "tkhd_above_mdhd_below"),
        (2000, 1000, two32, "tkhd_below_mdhd_at"),
        (2000, 1000, two32 * 2 - 2, "tkhd_below_mdhd_above"),
        (2000, 1000, two32 * 2, "tkhd_at_mdhd_above"),
        (1, u32::MAX, 3, "tkhd_above_by_ratio"),
        (u32::MAX, 1, two32 * 3, "mdhd_above_tkhd_tiny"),
    ] {
        let mut ops = vec![Op::Add(track(kind, tts)), Op::Add(track(kind + 3, tts))];
        let mut left = total;
        let mut k = 0;
        while left > 0 {
            let d = left.min(u32::MAX as u64) as u32;
            ops.push(Op::Write { track_id: 1, s: big(4 + k, k as u64, d) });
            left -= d as u64;
            k += 1;
        }
        ops.push(Op::Write { track_id: 2, s: big(9, 77, 1) });
        ops.push(Op::End);
        let side = if what.contains("at") { "at" } else if what.contains("above") { "above" } else { "below" };
        v.push(Scenario { name: format!("header_durations:{}", what), side, start_pos: 0, h: base(ops, mts) });
    }
    // ---- one giant chunk (> 4 GiB in a single chunk): samples of duration 0 never flush
    if thorough {
        let mut ops = vec![Op::Add(track(kind, 1000))];
        let mut total = 0u64;
        let mut k = 0u64;
        while total <= two32 + (B as u64) {
            ops.push(Op::Write { track_id: 1, s: big(B - (k as u32) * 16, k + 1000, 0) });
            total += (B - (k as u32) * 16) as u64;
            k += 1;
        }
        ops.push(Op::Write { track_id: 1, s: big(77, 1, 1000) });
        ops.push(Op::End);
        v.push(Scenario { name: "giant_single_chunk".into(), side: "above", start_pos: 0, h: base(ops, 1000) });
    }
    v
}

/// Generated scenarios that need no volume: the 2^32 boundary is placed by the stream's start
/// position (mode 0: anywhere inside the payload, between / inside / after the chunks of 1-3
/// tracks that may or may not hold buffered samples when write_end is called) or by durations
/// and timescales (mode 1: totals that cross 2^32 in media ticks, in movie ticks, in one of them
/// only, with movie / track timescales from 1 to 2^32-1).
fn generated(seed: u64, i: u64) -> Scenario {
    let two32: u64 = 1 << 32;
    let ts_set = [1u32, 2, 1000, 48000, 90000, 1_000_000_000, 1 << 31, u32::MAX - 1, u32::MAX];
    for attempt in 0..40u64 {
        let mut rng = Rng::derive(seed, 0xC13A + attempt, i);
        let mode = i % 2;
        let ntr = 1 + rng.below(3) as usize;
        let mts = if mode == 1 { *rng.pick(&ts_set) } else { *rng.pick(&[1000u32, 600, 90000]) };
        let mut ops = Vec::new();
        let mut tss = Vec::new();
        for _ in 0..ntr {
            let ts = if mode == 1 { *rng.pick(&ts_set) } else { *rng.pick(&[1000u32, 48000, 90000, 1]) };
            tss.push(ts);
            ops.push(Op::Add(track(rng.below(5) as usize, ts)));
        }
        let nw = 2 + rng.below(10);
        let mut payload = 0u64;
        for _ in 0..nw {
            let t = rng.below(ntr as u64) as usize;
            let ts = tss[t];
            let duration = if mode == 1 {
                *rng.pick(&[0u32, 1, 0x4000_0000, 0x6000_0000, 0x8000_0000, u32::MAX - 1, u32::MAX, ts])
            } else {
                // a chunk is closed once it holds a second of media: closing and non-closing writes
                *rng.pick(&[0u32, 1, 7, ts / 2, ts, ts.saturating_mul(2)])
            };
            let size = rng.below(48) as u32;
            payload += size as u64;
            ops.push(Op::Write { track_id: t as u32 + 1, s: SampleSpec { size, fill: rng.next_u64(), duration, cts: 0, sync: rng.bool() } });
        }
        // one position-mode history in six is finished twice: a write_end in the middle (while
        // every offset may still fit 32 bits), more samples, and the final write_end
        if mode == 0 && rng.chance(1, 6) && ops.len() > ntr + 2 {
            let at = ntr + 1 + rng.usize_below(ops.len() - ntr - 1);
            ops.insert(at, Op::End);
        }
        ops.push(Op::End);
        let h = base(ops, mts);
        if !representable(&h) {
            continue;
        }
        let start_pos = if mode == 0 {
            two32 - 40 - rng.below(payload + 120).min(two32 - 41)
        } else if rng.chance(1, 4) {
            two32 - 20 + rng.below(60)
        } else {
            0
        };
        let side = if mode == 0 { "boundary_inside_output" } else { "durations" };
        return Scenario { name: format!("generated:{}:{}", if mode == 0 { "position" } else { "durations" }, i), side, start_pos, h };
    }
    // (practically unreachable) fall back to a fixed small history
    Scenario { name: format!("generated:fallback:{}", i), side: "durations", start_pos: 0, h: base(vec![Op::Add(track(0, 1000)), Op::Write { track_id: 1, s: big(3, 1, 1000) }, Op::End], 1000) }
}

fn eval(id: &str, sc: &Scenario, rep: &mut Report) {
    rep.begin_with(id, &json!({"scenario": sc.name}));
    let mut stream = SparseStream::new(sc.start_pos);
    // half of the scenarios mux into a sink that takes small writes (header fields, the size
    // patches of write_end) only 1, 3 or 7 bytes at a time - legal for any Write; the output
    // must be the same valid file (the 64-bit patches are reachable only here, above 4 GiB)
    let short = if sc.name == format!("mdat_size={}", 1u64 << 32) { 3 } else { [0usize, 1, 0, 3, 0, 7, 0, 0][(hash_str(&sc.name) % 8) as usize] };
    stream.short_small_writes = short;
    if short > 0 {
        rep.add("scenarios_muxed_into_a_short_writing_sink", 1);
    }
    let run = run_history(&sc.h, stream, |_, _, _, _| {});
    let mut fails: Fails = Vec::new();
    if !run.start.is_ok() {
        fails.push(("write_start".into(), json!({"res": run.start.tag()})));
    }
    for (i, c) in run.calls.iter().enumerate() {
        if !c.is_ok() {
            fails.push(("call_failed".into(), json!({"op": i, "res": c.tag()})));
            break;
        }
    }
    if fails.is_empty() {
        match run.writer {
            Some(mut st) => {
                if let Some(b) = &st.bad_payload {
                    fails.push(("stream_payload".into(), json!({"err": b})));
                }
                rep.max("max_output_bytes", st.len as f64);
                rep.add("bytes_muxed", st.len - sc.start_pos);
                fails.extend(check_structure(&sc.h, &st, sc.start_pos));
                // forms actually used (for the evidence)
                if let Ok(top) = crate::refdec::parse_range(&st, sc.start_pos, st.len, None, 0) {
                    if let Some(m) = top.iter().find(|n| &n.typ == b"mdat") {
                        rep.note("mdat_header_forms", if m.hdr == 16 { "64-bit" } else { "32-bit" });
                    }
                    if let Ok(mv) = crate::refdec::dec_movie(&st, &top) {
                        for t in &mv.tracks {
                            rep.note("chunk_offset_forms", if t.stbl.is_co64 { "co64" } else { "stco" });
                            rep.note("header_versions", &format!("mdhd v{} tkhd v{} mvhd v{}", t.mdhd.version, t.tkhd.version, mv.mvhd.version));
                            if sc.name.starts_with("generated:") {
                                rep.cover_nt(hash_str(&format!("gen|{}|{}|{}|{}|{}|{}", sc.side, mv.tracks.len(), t.stbl.is_co64, t.mdhd.version, t.tkhd.version, mv.mvhd.version)));
                                if t.stbl.is_co64 && mv.tracks.iter().any(|u| !u.stbl.is_co64) {
                                    rep.add("generated_outputs_mixing_stco_and_co64_tracks", 1);
                                }
                            }
                        }
                    }
                }
                let len = st.len;
                let _ = st.seek(SeekFrom::Start(sc.start_pos));
                // what the reader's accessors report for the configuration and the durations
                // (movie and track duration in particular: they are what crosses 2^32 here)
                if sc.start_pos == 0 {
                    fails.extend(check_config(&sc.h, st.clone(), len));
                }
                fails.extend(check_readback(&sc.h, st, len));
            }
            None => fails.push(("no_output".into(), json!({}))),
        }
    }
    if sc.name.starts_with("generated:") {
        // distinct = which header forms the output ended up with, per mode
        rep.add("generated_scenarios", 1);
    } else {
        rep.cover_nt(hash_str(&format!("{}|{}", sc.name.split('=').next().unwrap_or(""), sc.side)));
        rep.cover_nt(hash_str(&sc.name));
    }
    if rep.want_sample() {
        rep.sample(json!({"scenario": sc.name, "side": sc.side, "start_position": sc.start_pos, "ops": sc.h.ops.len(), "history_head": sc.h.short().chars().take(300).collect::<String>()}));
    }
    if let Some((rule, detail)) = fails.first() {
        rep.fail("C13", id, rule, json!({"scenario": sc.name, "detail": detail, "more": fails.len() - 1}));
    }
    rep.end();
}

pub fn run(args: &Args) -> i32 {
    let mut rep = Report::new(args, true);
    rep.case_cpu_s = 900;
    let kinds: Vec<usize> = if args.thorough() { vec![0, 1, 2, 3, 4] } else { vec![(args.seed % 5) as usize] };
    let mut idx = 0u64;
    for kind in kinds {
        let scs = scenarios(kind, args.seed, args.thorough());
        for sc in scs {
            idx += 1;
            // the cheap scenarios of the other kinds are included in quick as well
            if !args.mine(idx) {
                continue;
            }
            let id = format!("k{}:{}", kind, sc.name);
            if !args.want(&id) {
                continue;
            }
            eval(&id, &sc, &mut rep);
        }
    }
    // generated cheap scenarios (no volume): see `generated`
    let ng = args.scale(20_000, 200_000);
    for g in 0..ng {
        idx += 1;
        if !args.mine(idx) {
            continue;
        }
        let id = format!("gen:{}", g);
        if !args.want(&id) {
            continue;
        }
        let sc = generated(args.seed, g);
        eval(&id, &sc, &mut rep);
        if rep.too_many_fails() {
            return rep.finish();
        }
    }
    if !args.thorough() {
        // quick: the cheap (non-volume) scenarios for the remaining four kinds
        for kind in 0..5usize {
            if kind == (args.seed % 5) as usize {
                continue;
            }
            for sc in scenarios(kind, args.seed, false) {
                if sc.name.starts_with("mdat_size") || sc.name.starts_with("chunk_offset_by_volume") {
                    continue;
                }
                idx += 1;
                if !args.mine(idx) {
                    continue;
                }
                let id = format!("k{}:{}", kind, sc.name);
                if !args.want(&id) {
                    continue;
                }
                eval(&id, &sc, &mut rep);
            }
        }
    }
    rep.finish()
}
