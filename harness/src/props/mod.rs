use crate::report::Args;

pub mod boxes;
pub mod c03;
pub mod c09;
pub mod c10;
pub mod c11;
pub mod c12;
pub mod c13;
pub mod c15;
pub mod c16;
pub mod c17;
pub mod c18;
pub mod hostile_props;
pub mod mux;
pub mod sanit;

pub fn run(args: &Args) -> i32 {
    match args.prop.as_str() {
        "C15" => c15::run(args),
        "C16" => c16::run(args),
        "C01" | "C02" | "C14" => mux::run(args),
        "C17" => c17::run(args),
        "C13" => c13::run(args),
        "C03" => c03::run(args),
        "C04" | "C05" => boxes::run(args),
        "C09" => c09::run(args),
        "C10" => c10::run(args),
        "C11" => c11::run(args),
        "C12" => c12::run(args),
        "C18" => c18::run(args),
        "C06" | "C07" | "C08" => hostile_props::run(args),
        other => {
            eprintln!("unknown property {}", other);
            2
        }
    }
}
