//! C04 (encode/decode are mutually inverse and size-exact) and C05 (wire formats conform to
//! the reference encoder/decoder) over the shape space of every box type.

use crate::boxgen::*;
use crate::prng::{hash_str, Rng};
use crate::refdec;
use crate::refenc::{self, BoxT, Part};
use crate::report::{hex_trunc, Args, Report};
use crate::streams::MonReader;
use crate::panicmon;
use mp4::verif_export::HvcCBox;
use mp4::*;
use serde_json::{json, Value};
use std::io::Seek;
use std::rc::Rc;
use std::result::Result;

type Fails = Vec<(String, Value)>;

pub fn decode<B: BoxIO>(bytes: &[u8]) -> Result<(B, u64), String> {
    decode_chunked::<B>(bytes, 0)
}

/// `chunk` > 0: the source hands out at most 1..=chunk bytes per read call (what a BufReader,
/// a pipe or a socket do); a decoder must not depend on reads being filled completely.
fn decode_chunked<B: BoxIO>(bytes: &[u8], chunk: usize) -> Result<(B, u64), String> {
    decode_behind::<B>(&[], bytes, chunk)
}

/// The box is not the first thing in the stream: `lead` (earlier siblings) precedes it and the
/// reader is positioned at the box's header. The returned position is relative to the box.
fn decode_behind<B: BoxIO>(lead: &[u8], bytes: &[u8], chunk: usize) -> Result<(B, u64), String> {
    let mut all = lead.to_vec();
    all.extend_from_slice(bytes);
    let data = Rc::new(all);
    let ctl = crate::streams::Ctl::new();
    ctl.chunk.set(chunk);
    ctl.chunk_random.set(chunk > 1);
    let mut r = MonReader::new(data, ctl);
    let at = lead.len() as u64;
    let res = panicmon::catch(|| {
        if at > 0 {
            r.seek(std::io::SeekFrom::Start(at))?;
        }
        let h = BoxHeader::read(&mut r)?;
        let v = B::dec(&mut r, h.size)?;
        let pos = r.stream_position()?.wrapping_sub(at);
        Ok::<(B, u64), mp4::Error>((v, pos))
    });
    match res {
        Ok(Ok(x)) => Ok(x),
        Ok(Err(e)) => Err(format!("error: {}", e)),
        Err(p) => Err(format!("panic at {}: {}", p.site(), p.msg)),
    }
}

fn encode<B: BoxIO>(v: &B) -> Result<(Vec<u8>, u64), String> {
    let mut out = Vec::new();
    match panicmon::catch(|| v.enc(&mut out)) {
        Ok(Ok(n)) => Ok((out, n)),
        Ok(Err(e)) => Err(format!("error: {}", e)),
        Err(p) => Err(format!("panic at {}: {}", p.site(), p.msg)),
    }
}

/// canonical form of a byte string holding one box: children of every `ilst` sorted (the
/// library keeps the item list in a HashMap, so item order is not part of the value)
fn canon(bytes: &[u8]) -> Vec<u8> {
    fn rec(bytes: &[u8], n: &refdec::Node, out: &mut Vec<u8>) {
        if n.children.is_empty() {
            out.extend_from_slice(&bytes[n.start as usize..n.end() as usize]);
            return;
        }
        let first = n.children[0].start as usize;
        out.extend_from_slice(&bytes[n.start as usize..first]);
        let mut kids: Vec<Vec<u8>> = n
            .children
            .iter()
            .map(|c| {
                let mut v = Vec::new();
                rec(bytes, c, &mut v);
                v
            })
            .collect();
        if &n.typ == b"ilst" {
            kids.sort();
        }
        for k in kids {
            out.extend_from_slice(&k);
        }
    }
    let v = bytes.to_vec();
    match refdec::parse_file(&v) {
        Ok(top) => {
            let mut out = Vec::new();
            for n in &top {
                rec(bytes, n, &mut out);
            }
            out
        }
        Err(_) => bytes.to_vec(),
    }
}

fn sibling(rng: &mut Rng) -> Vec<u8> {
    let n = rng.usize_below(20);
    let t = *rng.pick(&[*b"free", *b"skip", *b"moov", *b"mdat", *b"zzzz"]);
    refenc::serialize_one(&refenc::free_box(&t, n, 0x33))
}

fn first_diff(a: &[u8], b: &[u8]) -> Option<usize> {
    a.iter().zip(b.iter()).position(|(x, y)| x != y).or(if a.len() != b.len() { Some(a.len().min(b.len())) } else { None })
}

fn check_c04<B: BoxIO>(c: &Case<B>, rng: &mut Rng) -> Fails {
    let mut f = Fails::new();
    // (a) encoding is size exact
    let (bytes, n) = match encode(&c.value) {
        Ok(x) => x,
        Err(e) => {
            f.push(("encode_failed".into(), json!({"err": e})));
            return f;
        }
    };
    if n != bytes.len() as u64 || c.value.bsize() != bytes.len() as u64 {
        f.push(("size_mismatch".into(), json!({"returned": n, "box_size": c.value.bsize(), "written": bytes.len()})));
    }
    if bytes.len() >= 8 {
        let hs = u32::from_be_bytes([bytes[0], bytes[1], bytes[2], bytes[3]]) as usize;
        if hs != bytes.len() {
            f.push(("header_size_field".into(), json!({"field": hs, "written": bytes.len()})));
        }
        if bytes[4..8] != c.refbox.typ {
            f.push(("header_fourcc".into(), json!({"got": String::from_utf8_lossy(&bytes[4..8]), "want": c.refbox.name()})));
        }
    }
    // (b) decoding consumes exactly the box, also with siblings following, and yields the value
    let nsib = rng.usize_below(3);
    let mut stream = bytes.clone();
    for _ in 0..nsib {
        stream.extend_from_slice(&sibling(rng));
    }
    match decode::<B>(&stream) {
        Ok((v, pos)) => {
            if v != c.value {
                f.push(("roundtrip_value".into(), json!({"siblings": nsib, "got": format!("{:?}", v).chars().take(600).collect::<String>(), "want": format!("{:?}", c.value).chars().take(600).collect::<String>()})));
            }
            if pos != bytes.len() as u64 {
                f.push(("stream_position".into(), json!({"siblings": nsib, "pos": pos, "box_len": bytes.len()})));
            }
        }
        Err(e) => f.push(("decode_failed".into(), json!({"siblings": nsib, "err": e, "bytes": hex_trunc(&bytes, 200)}))),
    }
    // (b') the same decode from a source that returns short reads
    let chunk = *rng.pick(&[1usize, 7, 4096]);
    match decode_chunked::<B>(&stream, chunk) {
        Ok((v, pos)) => {
            if v != c.value || pos != bytes.len() as u64 {
                f.push(("roundtrip_value_from_short_reading_source".into(), json!({"max_bytes_per_read": chunk, "pos": pos, "box_len": bytes.len(), "got": format!("{:?}", v).chars().take(400).collect::<String>(), "want": format!("{:?}", c.value).chars().take(400).collect::<String>()})));
            }
        }
        Err(e) => f.push(("decode_failed_from_short_reading_source".into(), json!({"max_bytes_per_read": chunk, "err": e}))),
    }
    // (b'') the same decode when the box is not the first one in the stream: 1-3 earlier
    // siblings precede it (a box is decoded where it stands, not at offset 0; a limit or an
    // end computed from the box size alone instead of start + size is right only at offset 0)
    let mut lead = Vec::new();
    for _ in 0..1 + rng.usize_below(3) {
        lead.extend_from_slice(&sibling(rng));
    }
    match decode_behind::<B>(&lead, &stream, 0) {
        Ok((v, pos)) => {
            if v != c.value || pos != bytes.len() as u64 {
                f.push(("roundtrip_value_behind_earlier_siblings".into(), json!({"bytes_before_the_box": lead.len(), "pos_relative_to_box": pos, "box_len": bytes.len(), "got": format!("{:?}", v).chars().take(400).collect::<String>(), "want": format!("{:?}", c.value).chars().take(400).collect::<String>()})));
            }
        }
        Err(e) => f.push(("decode_failed_behind_earlier_siblings".into(), json!({"bytes_before_the_box": lead.len(), "err": e}))),
    }
    // (c) converse: accepted reference bytes (also in layout variants) re-encode to a fixpoint
    let mut variants: Vec<(&str, Vec<u8>)> = vec![("reference", refenc::serialize_one(&c.refbox))];
    let mut lb = c.refbox.clone();
    lb.large = true;
    variants.push(("large_header", refenc::serialize_one(&lb)));
    for (vn, vb) in variants {
        if let Ok((v1, _)) = decode::<B>(&vb) {
            if let Ok((b2, _)) = encode(&v1) {
                match decode::<B>(&b2) {
                    Ok((v2, _)) => {
                        if v2 != v1 {
                            f.push(("reencode_not_fixpoint".into(), json!({"variant": vn, "v1": format!("{:?}", v1).chars().take(400).collect::<String>(), "v2": format!("{:?}", v2).chars().take(400).collect::<String>()})));
                        }
                    }
                    Err(e) => f.push(("reencoded_bytes_rejected".into(), json!({"variant": vn, "err": e}))),
                }
            }
        }
    }
    f
}

fn check_c05<B: BoxIO>(c: &Case<B>, rng: &mut Rng, extra_variants: &[(&'static str, BoxT)]) -> Fails {
    let mut f = Fails::new();
    let refbytes = refenc::serialize_one(&c.refbox);
    // (a) library encoding == reference bytes
    match encode(&c.value) {
        Ok((bytes, _)) => {
            let (a, b) = (canon(&bytes), canon(&refbytes));
            if a != b {
                f.push(("encoding_differs_from_reference".into(), json!({"first_diff": first_diff(&a, &b), "lib": hex_trunc(&a, 160), "ref": hex_trunc(&b, 160)})));
            }
        }
        Err(e) => f.push(("encode_failed".into(), json!({"err": e}))),
    }
    // (b) reference bytes decode to the same field values; (c) so do the 64-bit header form and
    // other equivalent encodings
    let mut variants: Vec<(&str, Vec<u8>)> = vec![("reference", refbytes.clone())];
    let mut lb = c.refbox.clone();
    lb.large = true;
    variants.push(("large_header", refenc::serialize_one(&lb)));
    for (n, b) in extra_variants {
        variants.push((n, refenc::serialize_one(b)));
    }
    for (vn, vb) in variants {
        let mut stream = vb.clone();
        if rng.bool() {
            stream.extend_from_slice(&sibling(rng));
        }
        match decode::<B>(&stream) {
            Ok((v, pos)) => {
                if v != c.value {
                    f.push(("decoded_value_differs".into(), json!({"variant": vn, "got": format!("{:?}", v).chars().take(700).collect::<String>(), "want": format!("{:?}", c.value).chars().take(700).collect::<String>()})));
                }
                if pos != vb.len() as u64 {
                    f.push(("stream_position".into(), json!({"variant": vn, "pos": pos, "box_len": vb.len()})));
                }
            }
            Err(e) => f.push(("reference_bytes_rejected".into(), json!({"variant": vn, "err": e, "bytes": hex_trunc(&vb, 200)}))),
        }
    }
    f
}

/// equivalent encodings of sample entries: random compressor name / reserved areas that are
/// not fields of the library value
fn visual_variants(b: &BoxT, rng: &mut Rng) -> Vec<(&'static str, BoxT)> {
    let mut v = b.clone();
    if let Some(Part::Data(pb)) = v.parts.first_mut() {
        // compressorname occupies payload bytes 42..74 of a visual sample entry
        if pb.b.len() >= 74 {
            let r = rng.bytes(32);
            pb.b[42..74].copy_from_slice(&r);
        }
    }
    vec![("random_compressorname", v)]
}

struct Ctx<'a> {
    args: &'a Args,
    rep: &'a mut Report,
    idx: u64,
}

fn run_type<B: BoxIO>(cx: &mut Ctx, name: &str, nshapes: usize, gen: &dyn Fn(&mut Rng, usize) -> Case<B>, variants: &dyn Fn(&Case<B>, &mut Rng) -> Vec<(&'static str, BoxT)>) {
    let reps = cx.args.scale(1200, 12_000);
    let prop = cx.args.prop.clone();
    for shape in 0..nshapes {
        for r in 0..reps {
            cx.idx += 1;
            if !cx.args.mine(cx.idx) {
                continue;
            }
            let id = format!("{}:{}:{}", name, shape, r);
            if !cx.args.want(&id) {
                continue;
            }
            cx.rep.begin(&id);
            let mut rng = Rng::derive(cx.args.seed, hash_str(name), (shape as u64) << 20 | r);
            crate::boxgen::set_scale(r % 32 == 31);
            if r % 32 == 31 {
                cx.rep.add("scale_mode_cases", 1);
            }
            let c = gen(&mut rng, shape);
            crate::boxgen::set_scale(false);
            let h = hash_str(&format!("{}|{}", name, c.shape));
            if c.nontrivial {
                cx.rep.cover_nt(h);
            } else {
                cx.rep.cover(h);
            }
            cx.rep.note("box_types", name);
            let fails = if prop == "C04" {
                let mut fl = check_c04(&c, &mut rng);
                if name == "stsd" {
                    // a sample description with TWO entries of different codecs (legal, rare):
                    // whatever the decoder makes of it, re-encoding the decoded value and
                    // decoding again must reproduce that value (the fixpoint clause)
                    let mut two = c.refbox.clone();
                    let first_is_audio = two.children().first().map(|e| &e.typ == b"mp4a").unwrap_or(false);
                    let mut patched = false;
                    if let Some(refenc::Part::Data(pb)) = two.parts.first_mut() {
                        if pb.b.len() >= 8 && pb.b[4..8] == [0, 0, 0, 1] {
                            pb.b[7] = 2;
                            patched = true;
                        }
                    }
                    if patched {
                        two.push(if first_is_audio { crate::boxgen::gen_avc1(&mut rng, 0).refbox } else { crate::boxgen::gen_mp4a(&mut rng, 0).refbox });
                        let vb = refenc::serialize_one(&two);
                        if let Ok((v1, _)) = decode::<B>(&vb) {
                            if let Ok((b2, _)) = encode(&v1) {
                                match decode::<B>(&b2) {
                                    Ok((v2, _)) => {
                                        if v2 != v1 {
                                            fl.push(("reencode_not_fixpoint".into(), json!({"variant": "two sample entries of different codecs", "v1": format!("{:?}", v1).chars().take(300).collect::<String>(), "v2": format!("{:?}", v2).chars().take(300).collect::<String>()})));
                                        }
                                    }
                                    Err(e) => fl.push(("reencoded_bytes_rejected".into(), json!({"variant": "two sample entries of different codecs", "err": e}))),
                                }
                            }
                        }
                        cx.rep.add("stsd_two_entry_fixpoints", 1);
                    }
                }
                fl
            } else {
                let ev = variants(&c, &mut rng);
                check_c05(&c, &mut rng, &ev)
            };
            // JSON / summary rendering must work for every representable value (no panic)
            if let Err(p) = panicmon::catch(|| {
                let _ = c.value.json();
                let _ = c.value.summ();
            }) {
                cx.rep.fail(&prop, &id, "render_panic", json!({"site": p.site(), "msg": p.msg}));
            }
            if cx.rep.want_sample() && c.nontrivial && cx.args.shard == 0 && r == 0 {
                cx.rep.sample(json!({"case": id, "shape": c.shape, "reference_bytes": hex_trunc(&refenc::serialize_one(&c.refbox), 96)}));
            }
            if cx.rep.verbose {
                eprintln!("shape {} value {:?}\nref {}", c.shape, c.value, hex_trunc(&refenc::serialize_one(&c.refbox), 400));
            }
            if let Some((rule, detail)) = fails.first() {
                cx.rep.fail(&prop, &id, rule, json!({"box": name, "shape": c.shape, "detail": detail, "more": fails.len() - 1}));
            }
            cx.rep.end();
        }
    }
}

fn none<B>(_: &Case<B>, _: &mut Rng) -> Vec<(&'static str, BoxT)> {
    Vec::new()
}

fn header_cases(cx: &mut Ctx) {
    // BoxHeader across the 32/64-bit boundary (header only; no payload needed)
    let prop = cx.args.prop.clone();
    let sizes: Vec<u64> = vec![8, 9, 16, 0x7FFF_FFFF, 0xFFFF_FFFE, 0xFFFF_FFFF, 0x1_0000_0000, 0x1_0000_0001, 0x1_0000_0008, 1 << 40, (1u64 << 63) - 1, u64::MAX - 8];
    for (k, s) in sizes.iter().enumerate() {
        cx.idx += 1;
        if !cx.args.mine(cx.idx) {
            continue;
        }
        let id = format!("header:{}", s);
        if !cx.args.want(&id) {
            continue;
        }
        cx.rep.begin(&id);
        let typ = [*b"mdat", *b"moov", *b"zzzz"][k % 3];
        let h = BoxHeader::new(BoxType::from(u32::from_be_bytes(typ)), *s);
        let mut out = Vec::new();
        let r = panicmon::catch(|| h.write(&mut out));
        // reference: 32-bit form [size][type]; 64-bit form [1][type][total] where the total box
        // length is 8 more than the "payload + 8" convention of BoxHeader.size
        let mut want = Vec::new();
        if *s <= u32::MAX as u64 {
            want.extend_from_slice(&(*s as u32).to_be_bytes());
            want.extend_from_slice(&typ);
        } else {
            want.extend_from_slice(&1u32.to_be_bytes());
            want.extend_from_slice(&typ);
            want.extend_from_slice(&(s + 8).to_be_bytes());
        }
        match r {
            Ok(Ok(n)) => {
                if n != out.len() as u64 {
                    cx.rep.fail(&prop, &id, "header_write_count", json!({"returned": n, "written": out.len()}));
                }
                if prop == "C05" && out != want {
                    cx.rep.fail(&prop, &id, "header_bytes", json!({"got": crate::report::hex(&out), "want": crate::report::hex(&want)}));
                }
                if prop == "C04" {
                    let mut cur = std::io::Cursor::new(&out[..]);
                    match BoxHeader::read(&mut cur) {
                        Ok(h2) => {
                            if h2.size != *s || h2.name != h.name {
                                cx.rep.fail(&prop, &id, "header_roundtrip", json!({"wrote": s, "read": h2.size}));
                            }
                        }
                        Err(e) => cx.rep.fail(&prop, &id, "header_roundtrip", json!({"err": e.to_string()})),
                    }
                }
            }
            Ok(Err(e)) => cx.rep.fail(&prop, &id, "header_write_err", json!({"err": e.to_string()})),
            Err(p) => cx.rep.fail(&prop, &id, "panic", json!({"site": p.site(), "msg": p.msg})),
        }
        if prop == "C05" {
            let mut cur = std::io::Cursor::new(&want[..]);
            match BoxHeader::read(&mut cur) {
                Ok(h2) => {
                    if h2.size != *s {
                        cx.rep.fail(&prop, &id, "header_decode", json!({"want": s, "read": h2.size}));
                    }
                }
                Err(e) => cx.rep.fail(&prop, &id, "header_decode", json!({"err": e.to_string()})),
            }
        }
        cx.rep.cover_nt(hash_str(&format!("header|{}", (*s > u32::MAX as u64) as u8)));
        cx.rep.note("box_types", "BoxHeader");
        cx.rep.end();
    }
}

pub fn run(args: &Args) -> i32 {
    let mut rep = Report::new(args, true);
    {
        let mut cx = Ctx { args, rep: &mut rep, idx: 0 };
        header_cases(&mut cx);
        run_type(&mut cx, "ftyp", 5, &gen_ftyp, &none);
        run_type(&mut cx, "mvhd", 2, &gen_mvhd, &none);
        run_type(&mut cx, "tkhd", 2, &gen_tkhd, &none);
        run_type(&mut cx, "mdhd", 2, &gen_mdhd, &none);
        run_type(&mut cx, "hdlr", 5, &gen_hdlr, &none);
        run_type(&mut cx, "vmhd", 1, &gen_vmhd, &none);
        run_type(&mut cx, "smhd", 1, &gen_smhd, &none);
        run_type(&mut cx, "url ", 4, &gen_url, &none);
        run_type(&mut cx, "dref", 12, &gen_dref, &none);
        run_type(&mut cx, "dinf", 12, &gen_dinf, &none);
        run_type(&mut cx, "stts", 5, &gen_stts, &none);
        run_type(&mut cx, "ctts", 5, &gen_ctts, &none);
        run_type(&mut cx, "stss", 5, &gen_stss, &none);
        run_type(&mut cx, "stsc", 5, &gen_stsc, &none);
        run_type(&mut cx, "stsz", 6, &gen_stsz, &none);
        run_type(&mut cx, "stco", 5, &gen_stco, &none);
        run_type(&mut cx, "co64", 5, &gen_co64, &none);
        run_type(&mut cx, "elst", 10, &gen_elst, &none);
        run_type(&mut cx, "edts", 10, &gen_edts, &none);
        run_type(&mut cx, "mehd", 2, &gen_mehd, &none);
        run_type(&mut cx, "trex", 1, &gen_trex, &none);
        run_type(&mut cx, "mvex", 6, &gen_mvex, &none);
        run_type(&mut cx, "mfhd", 1, &gen_mfhd, &none);
        run_type(&mut cx, "tfdt", 2, &gen_tfdt, &none);
        run_type(&mut cx, "tfhd", 128, &gen_tfhd, &none);
        run_type(&mut cx, "trun", 640, &gen_trun, &none);
        run_type(&mut cx, "traf", 96, &gen_traf, &none);
        run_type(&mut cx, "moof", 16, &gen_moof, &none);
        run_type(&mut cx, "emsg", 72, &gen_emsg, &none);
        run_type(&mut cx, "avcC", 16, &gen_avcc, &none);
        run_type(&mut cx, "avc1", 16, &gen_avc1, &|c: &Case<Avc1Box>, r: &mut Rng| visual_variants(&c.refbox, r));
        run_type(&mut cx, "hvcC", 4, &gen_hvcc, &|c: &Case<HvcCBox>, _r: &mut Rng| vec![("reserved_bits_set", hvcc_reserved_ones(&c.refbox))]);
        run_type(&mut cx, "hev1", 4, &gen_hev1, &|c: &Case<Hev1Box>, r: &mut Rng| {
            let mut v = visual_variants(&c.refbox, r);
            let mut b = c.refbox.clone();
            if let Some(h) = b.children_mut().into_iter().next() {
                *h = hvcc_reserved_ones(h);
            }
            v.push(("reserved_bits_set", b));
            v
        });
        run_type(&mut cx, "vpcC", 1, &gen_vpcc, &none);
        run_type(&mut cx, "vp09", 1, &gen_vp09, &none);
        run_type(&mut cx, "esds", 1, &gen_esds, &none);
        run_type(&mut cx, "mp4a", 3, &gen_mp4a, &none);
        run_type(&mut cx, "tx3g", 1, &gen_tx3g, &none);
        run_type(&mut cx, "stsd", 24, &gen_stsd, &none);
        run_type(&mut cx, "stbl", 40, &gen_stbl, &none);
        run_type(&mut cx, "minf", 12, &gen_minf, &none);
        run_type(&mut cx, "mdia", 6, &gen_mdia, &none);
        run_type(&mut cx, "data", 20, &gen_data, &none);
        run_type(&mut cx, "ilst", 16, &gen_ilst, &none);
        run_type(&mut cx, "meta", 18, &gen_meta, &none);
        run_type(&mut cx, "udta", 12, &gen_udta, &none);
        run_type(&mut cx, "trak", 8, &gen_trak, &none);
        run_type(&mut cx, "moov", 32, &gen_moov, &none);
    }
    if args.prop == "C05" {
        c05_descriptors_and_accessors(args, &mut rep);
    }
    rep.finish()
}

/// C05 (c)/(d): padded descriptor lengths at each of the four esds levels, QuickTime sound
/// description forms, and the codec parameters the API exposes on reference-encoded files
/// (AAC object type escape, frequency index, channel configuration).
fn c05_descriptors_and_accessors(args: &Args, rep: &mut Report) {
    use crate::model::*;
    let n = args.scale(100_000, 2_000_000);
    for i in 0..n {
        if !args.mine(i) {
            continue;
        }
        let id = format!("esds_ref:{}", i);
        if !args.want(&id) {
            continue;
        }
        rep.begin(&id);
        let mut rng = Rng::derive(args.seed, 0xE5D5, i);
        // full AudioSpecificConfig domain: AOT 1..=94 (escape form from 32), any index incl. 15
        let mut f = gen_esds_f(&mut rng, false, true);
        // random mode stays outside K3 (index 15); every 7th case probes it
        let probe_k3 = i % 7 == 0;
        if !probe_k3 && f.freq_index == 15 {
            f.freq_index = rng.below(15) as u8;
        }
        if probe_k3 {
            f.freq_index = 15;
        }
        // padded descriptor lengths
        for l in 0..4 {
            f.pad[l] = if rng.bool() { 0 } else { 1 + rng.usize_below(4) };
        }
        let want = esds_value(&f);
        let b = refenc::enc_esds(&f);
        let bytes = refenc::serialize_one(&b);
        let mut fails = Fails::new();
        match decode::<mp4::verif_export::EsdsBox>(&bytes) {
            Ok((v, pos)) => {
                if pos != bytes.len() as u64 {
                    fails.push(("stream_position".into(), json!({"pos": pos, "len": bytes.len()})));
                }
                let g = &v.es_desc.dec_config;
                let w = &want.es_desc.dec_config;
                if v.es_desc.es_id != want.es_desc.es_id || g.object_type_indication != w.object_type_indication || g.stream_type != w.stream_type || g.up_stream != w.up_stream || g.buffer_size_db != w.buffer_size_db || g.max_bitrate != w.max_bitrate || g.avg_bitrate != w.avg_bitrate {
                    fails.push(("decoder_config_fields".into(), json!({"got": format!("{:?}", g), "want": format!("{:?}", w)})));
                }
                if g.dec_specific.profile != f.aot {
                    fails.push(("audio_object_type".into(), json!({"got": g.dec_specific.profile, "want": f.aot})));
                }
                if g.dec_specific.freq_index != f.freq_index {
                    fails.push(("freq_index".into(), json!({"got": g.dec_specific.freq_index, "want": f.freq_index, "aot": f.aot})));
                }
                if g.dec_specific.chan_conf != f.chan {
                    fails.push(("chan_conf".into(), json!({"got": g.dec_specific.chan_conf, "want": f.chan, "aot": f.aot, "freq_index": f.freq_index})));
                }
            }
            Err(e) => fails.push(("reference_bytes_rejected".into(), json!({"err": e, "bytes": hex_trunc(&bytes, 120)}))),
        }
        rep.cover_nt(hash_str(&format!("esds_ref|ext{}|fi15{}|pad{:?}", (f.aot >= 32) as u8, (f.freq_index == 15) as u8, f.pad.iter().map(|p| (*p > 0) as u8).collect::<Vec<_>>())));
        let mut real = Vec::new();
        for (rule, d) in fails {
            if f.freq_index == 15 && rule == "chan_conf" {
                rep.known("C05", "K3", "AudioSpecificConfig with frequency index 15: channel configuration decoded from the wrong bits");
                continue;
            }
            real.push((rule, d));
        }
        if let Some((rule, d)) = real.first() {
            rep.fail("C05", &id, rule, json!({"detail": d, "esds": format!("{:?}", f), "bytes": hex_trunc(&bytes, 120), "more": real.len() - 1}));
        }
        rep.end();
    }
    // accessors through a whole reference file, including the QuickTime sound description forms
    let n = args.scale(50_000, 1_000_000);
    for i in 0..n {
        if !args.mine(i) {
            continue;
        }
        let id = format!("aac_file:{}", i);
        if !args.want(&id) {
            continue;
        }
        rep.begin(&id);
        let mut rng = Rng::derive(args.seed, 0xACC, i);
        let mut m = gen_movie(&mut rng, 1, 3, 16);
        m.tracks[0].codec = Codec::Aac;
        let aot = if rng.bool() { 1 + rng.below(30) as u8 } else { 32 + rng.below(15) as u8 };
        // channel configuration over its whole 4-bit field: 1..=7 are layouts, 0 ("defined in the
        // bitstream") and 8..=15 are not - for those the accessor has no layout to report
        let chan = if rng.chance(1, 4) { *rng.pick(&[0u8, 0, 8, 11, 15]) } else { 1 + rng.below(7) as u8 };
        m.tracks[0].aac = (aot, rng.below(13) as u8, chan, rng.biased_u32());
        let fl = gen_file_layout(&mut rng, &m);
        let qt = i % 3;
        let b = build_plain(&m, &fl, &|top| {
            if qt == 0 {
                return;
            }
            // rewrite mp4a into QuickTime form: version 1 sound description (+16 bytes), esds
            // optionally wrapped in a `wave` box
            for t in top.iter_mut() {
                if let Some(mp4a) = t.find_mut(&[b"trak", b"mdia", b"minf", b"stbl", b"stsd", b"mp4a"]) {
                    if let Some(Part::Data(pb)) = mp4a.parts.first_mut() {
                        pb.b[8] = 0;
                        pb.b[9] = 1;
                        pb.b.extend_from_slice(&[0u8; 16]);
                    }
                    if qt == 2 {
                        let kids: Vec<Part> = mp4a.parts.drain(1..).collect();
                        let mut wave = BoxT::new(b"wave");
                        wave.push(refenc::free_box(b"frma", 4, b'm'));
                        for k in kids {
                            wave.parts.push(k);
                        }
                        mp4a.push(wave);
                    }
                }
            }
        });
        let bytes = Rc::new(b.ser.bytes);
        let mut fails = Fails::new();
        match crate::readcheck::open(&bytes) {
            Ok(mp4) => {
                let t = &mp4.tracks()[&m.tracks[0].id];
                let r = panicmon::catch(|| {
                    let e = t.trak.mdia.minf.stbl.stsd.mp4a.as_ref().and_then(|a| a.esds.as_ref()).map(|e| e.es_desc.dec_config.dec_specific.clone());
                    (e, t.sample_freq_index().ok().map(|x| x as u8), t.channel_config().ok().map(|x| x as u8), t.audio_profile().ok().map(|x| x as u8), t.bitrate())
                });
                match r {
                    Ok((spec, fi, cc, ap, br)) => {
                        let want = m.tracks[0].aac;
                        match spec {
                            Some(s) => {
                                if s.profile != want.0 {
                                    fails.push(("audio_object_type".into(), json!({"got": s.profile, "want": want.0, "form": qt})));
                                }
                                if s.freq_index != want.1 || fi != Some(want.1) {
                                    fails.push(("freq_index".into(), json!({"got": s.freq_index, "accessor": fi, "want": want.1, "form": qt})));
                                }
                                let want_cc = if (1..=7).contains(&want.2) { Some(want.2) } else { None };
                                if s.chan_conf != want.2 || cc != want_cc {
                                    fails.push(("chan_conf".into(), json!({"got": s.chan_conf, "accessor": cc, "want": want.2, "form": qt})));
                                }
                                let valid = matches!(want.0, 1..=9 | 12..=17 | 19..=30 | 32..=46);
                                if valid && ap != Some(want.0) {
                                    fails.push(("audio_profile_accessor".into(), json!({"got": ap, "want": want.0})));
                                }
                                if br != want.3 {
                                    fails.push(("bitrate".into(), json!({"got": br, "want": want.3})));
                                }
                            }
                            None => fails.push(("esds_not_found".into(), json!({"form": qt}))),
                        }
                    }
                    Err(p) => fails.push(("panic".into(), json!({"site": p.site(), "msg": p.msg}))),
                }
            }
            Err((r, d)) => fails.push((r, d)),
        }
        rep.cover_nt(hash_str(&format!("aac_file|form{}|ext{}", qt, (aot >= 32) as u8)));
        if let Some((rule, d)) = fails.first() {
            rep.fail("C05", &id, rule, json!({"detail": d, "aac": format!("{:?}", m.tracks[0].aac), "more": fails.len() - 1}));
        }
        rep.end();
    }
}
