//! Independent ISO-BMFF reference encoder (trusted base; written from the specifications,
//! see DESIGN.md Appendix A). Builds a box *tree* (so that layout transformations can be
//! applied structurally), serialises it with 32- or 64-bit headers, and records a field map
//! (path, offset, width, kind) used for structure-aware mutation.

#[derive(Debug, Clone, Copy, PartialEq, Eq)]
pub enum Kind {
    BoxSize,
    LargeSize,
    FourCC,
    Version,
    Flags,
    Count,
    Length,
    Offset,
    Value,
}

#[derive(Debug, Clone)]
pub struct Field {
    pub path: String,
    pub off: usize,
    pub width: usize,
    pub kind: Kind,
}

/// Payload builder with field recording (offsets relative to the payload piece).
#[derive(Debug, Clone, Default)]
pub struct PB {
    pub b: Vec<u8>,
    pub f: Vec<(usize, usize, Kind, &'static str)>,
    // bit accumulator
    acc: u64,
    nbits: u32,
}

impl PB {
    pub fn new() -> PB {
        PB::default()
    }
    fn rec(&mut self, w: usize, k: Kind, n: &'static str) {
        self.f.push((self.b.len(), w, k, n));
    }
    pub fn u8(&mut self, n: &'static str, k: Kind, v: u8) -> &mut Self {
        self.rec(1, k, n);
        self.b.push(v);
        self
    }
    pub fn u16(&mut self, n: &'static str, k: Kind, v: u16) -> &mut Self {
        self.rec(2, k, n);
        self.b.extend_from_slice(&v.to_be_bytes());
        self
    }
    pub fn u24(&mut self, n: &'static str, k: Kind, v: u32) -> &mut Self {
        self.rec(3, k, n);
        self.b.extend_from_slice(&v.to_be_bytes()[1..]);
        self
    }
    pub fn u32(&mut self, n: &'static str, k: Kind, v: u32) -> &mut Self {
        self.rec(4, k, n);
        self.b.extend_from_slice(&v.to_be_bytes());
        self
    }
    pub fn u48(&mut self, n: &'static str, k: Kind, v: u64) -> &mut Self {
        self.rec(6, k, n);
        self.b.extend_from_slice(&v.to_be_bytes()[2..]);
        self
    }
    pub fn u64(&mut self, n: &'static str, k: Kind, v: u64) -> &mut Self {
        self.rec(8, k, n);
        self.b.extend_from_slice(&v.to_be_bytes());
        self
    }
    pub fn i16(&mut self, n: &'static str, k: Kind, v: i16) -> &mut Self {
        self.u16(n, k, v as u16)
    }
    pub fn i32(&mut self, n: &'static str, k: Kind, v: i32) -> &mut Self {
        self.u32(n, k, v as u32)
    }
    pub fn raw(&mut self, v: &[u8]) -> &mut Self {
        self.b.extend_from_slice(v);
        self
    }
    pub fn zeros(&mut self, n: usize) -> &mut Self {
        self.b.extend(std::iter::repeat(0u8).take(n));
        self
    }
    pub fn fullbox(&mut self, version: u8, flags: u32) -> &mut Self {
        self.u8("version", Kind::Version, version);
        self.u24("flags", Kind::Flags, flags & 0xFF_FFFF);
        self
    }
    /// append `n` bits (MSB first); must end byte aligned before other calls
    pub fn bits(&mut self, n: u32, v: u64) -> &mut Self {
        let mask = if n >= 64 { u64::MAX } else { (1u64 << n) - 1 };
        self.acc = (self.acc << n) | (v & mask);
        self.nbits += n;
        while self.nbits >= 8 {
            let sh = self.nbits - 8;
            self.b.push((self.acc >> sh) as u8);
            self.nbits -= 8;
            self.acc &= (1u64 << self.nbits).wrapping_sub(1);
        }
        self
    }
    pub fn cstr(&mut self, s: &[u8]) -> &mut Self {
        self.b.extend_from_slice(s);
        self.b.push(0);
        self
    }
}

#[derive(Debug, Clone)]
pub enum Part {
    Data(PB),
    Child(BoxT),
}

/// A box in tree form.
#[derive(Debug, Clone)]
pub struct BoxT {
    pub typ: [u8; 4],
    /// emit size = 1 + 64-bit largesize
    pub large: bool,
    /// emit size = 0 ("extends to the end of the file"); only meaningful for the last top-level box
    pub to_end: bool,
    pub parts: Vec<Part>,
    /// spare bytes appended after the last field
    pub spare: Vec<u8>,
}

impl BoxT {
    pub fn new(typ: &[u8; 4]) -> BoxT {
        BoxT { typ: *typ, large: false, to_end: false, parts: Vec::new(), spare: Vec::new() }
    }
    pub fn leaf(typ: &[u8; 4], pb: PB) -> BoxT {
        BoxT { typ: *typ, large: false, to_end: false, parts: vec![Part::Data(pb)], spare: Vec::new() }
    }
    pub fn container(typ: &[u8; 4], children: Vec<BoxT>) -> BoxT {
        BoxT { typ: *typ, large: false, to_end: false, parts: children.into_iter().map(Part::Child).collect(), spare: Vec::new() }
    }
    pub fn push(&mut self, c: BoxT) -> &mut Self {
        self.parts.push(Part::Child(c));
        self
    }
    pub fn data(&mut self, pb: PB) -> &mut Self {
        self.parts.push(Part::Data(pb));
        self
    }
    pub fn name(&self) -> String {
        self.typ.iter().map(|b| if b.is_ascii_graphic() { *b as char } else { '?' }).collect()
    }
    pub fn children_mut(&mut self) -> Vec<&mut BoxT> {
        self.parts.iter_mut().filter_map(|p| if let Part::Child(c) = p { Some(c) } else { None }).collect()
    }
    pub fn children(&self) -> Vec<&BoxT> {
        self.parts.iter().filter_map(|p| if let Part::Child(c) = p { Some(c) } else { None }).collect()
    }
    pub fn find_mut(&mut self, path: &[&[u8; 4]]) -> Option<&mut BoxT> {
        if path.is_empty() {
            return Some(self);
        }
        for c in self.children_mut() {
            if &c.typ == path[0] {
                return c.find_mut(&path[1..]);
            }
        }
        None
    }
    /// total serialised size
    pub fn size(&self) -> u64 {
        let mut n = if self.large { 16 } else { 8 };
        for p in &self.parts {
            n += match p {
                Part::Data(pb) => pb.b.len() as u64,
                Part::Child(c) => c.size(),
            };
        }
        n + self.spare.len() as u64
    }
}

#[derive(Debug, Clone)]
pub struct BoxPos {
    pub path: String,
    pub typ: [u8; 4],
    pub start: usize,
    pub hdr: usize,
    pub size: u64,
}

#[derive(Debug, Clone, Default)]
pub struct Ser {
    pub bytes: Vec<u8>,
    pub fields: Vec<Field>,
    pub boxes: Vec<BoxPos>,
}

fn ser_box(b: &BoxT, path: &str, idx: usize, out: &mut Ser) {
    let name = b.name();
    let my = if path.is_empty() { format!("{}[{}]", name, idx) } else { format!("{}/{}[{}]", path, name, idx) };
    let start = out.bytes.len();
    let size = b.size();
    if b.large {
        out.fields.push(Field { path: format!("{}.size", my), off: start, width: 4, kind: Kind::BoxSize });
        out.bytes.extend_from_slice(&1u32.to_be_bytes());
        out.fields.push(Field { path: format!("{}.type", my), off: start + 4, width: 4, kind: Kind::FourCC });
        out.bytes.extend_from_slice(&b.typ);
        out.fields.push(Field { path: format!("{}.largesize", my), off: start + 8, width: 8, kind: Kind::LargeSize });
        out.bytes.extend_from_slice(&size.to_be_bytes());
    } else {
        out.fields.push(Field { path: format!("{}.size", my), off: start, width: 4, kind: Kind::BoxSize });
        let s32 = if b.to_end { 0 } else { size as u32 };
        out.bytes.extend_from_slice(&s32.to_be_bytes());
        out.fields.push(Field { path: format!("{}.type", my), off: start + 4, width: 4, kind: Kind::FourCC });
        out.bytes.extend_from_slice(&b.typ);
    }
    out.boxes.push(BoxPos { path: my.clone(), typ: b.typ, start, hdr: if b.large { 16 } else { 8 }, size });
    let mut counts: std::collections::HashMap<[u8; 4], usize> = std::collections::HashMap::new();
    let mut piece = 0;
    for p in &b.parts {
        match p {
            Part::Data(pb) => {
                let base = out.bytes.len();
                for (o, w, k, n) in &pb.f {
                    out.fields.push(Field { path: format!("{}.{}#{}", my, n, piece), off: base + o, width: *w, kind: *k });
                }
                out.bytes.extend_from_slice(&pb.b);
                piece += 1;
            }
            Part::Child(c) => {
                let i = counts.entry(c.typ).or_insert(0);
                ser_box(c, &my, *i, out);
                *i += 1;
            }
        }
    }
    out.bytes.extend_from_slice(&b.spare);
}

pub fn serialize(top: &[BoxT]) -> Ser {
    let mut out = Ser::default();
    let mut counts: std::collections::HashMap<[u8; 4], usize> = std::collections::HashMap::new();
    for b in top {
        let i = counts.entry(b.typ).or_insert(0);
        ser_box(b, "", *i, &mut out);
        *i += 1;
    }
    out
}

pub fn serialize_one(b: &BoxT) -> Vec<u8> {
    serialize(std::slice::from_ref(b)).bytes
}

// ---------------------------------------------------------------------------------------
// field structs + encoders, one per box type (layouts: DESIGN.md Appendix A)
// ---------------------------------------------------------------------------------------

use Kind::*;

#[derive(Debug, Clone, PartialEq, Eq)]
pub struct FtypF {
    pub major: [u8; 4],
    pub minor: u32,
    pub brands: Vec<[u8; 4]>,
}
pub fn enc_ftyp(f: &FtypF) -> BoxT {
    let mut p = PB::new();
    p.raw(&f.major);
    p.u32("minor_version", Value, f.minor);
    for b in &f.brands {
        p.raw(b);
    }
    BoxT::leaf(b"ftyp", p)
}

#[derive(Debug, Clone, PartialEq, Eq)]
pub struct MvhdF {
    pub version: u8,
    pub flags: u32,
    pub creation: u64,
    pub modification: u64,
    pub timescale: u32,
    pub duration: u64,
    pub rate: u32,
    pub volume: u16,
    pub matrix: [i32; 9],
    pub next_track_id: u32,
}
pub const UNITY: [i32; 9] = [0x10000, 0, 0, 0, 0x10000, 0, 0, 0, 0x4000_0000];
impl Default for MvhdF {
    fn default() -> Self {
        MvhdF { version: 0, flags: 0, creation: 0, modification: 0, timescale: 1000, duration: 0, rate: 0x10000, volume: 0x100, matrix: UNITY, next_track_id: 1 }
    }
}
pub fn enc_mvhd(f: &MvhdF) -> BoxT {
    let mut p = PB::new();
    p.fullbox(f.version, f.flags);
    if f.version == 1 {
        p.u64("creation_time", Value, f.creation).u64("modification_time", Value, f.modification);
        p.u32("timescale", Value, f.timescale).u64("duration", Value, f.duration);
    } else {
        p.u32("creation_time", Value, f.creation as u32).u32("modification_time", Value, f.modification as u32);
        p.u32("timescale", Value, f.timescale).u32("duration", Value, f.duration as u32);
    }
    p.u32("rate", Value, f.rate).u16("volume", Value, f.volume);
    p.zeros(2).zeros(8);
    for m in f.matrix.iter() {
        p.i32("matrix", Value, *m);
    }
    p.zeros(24);
    p.u32("next_track_ID", Value, f.next_track_id);
    BoxT::leaf(b"mvhd", p)
}

#[derive(Debug, Clone, PartialEq, Eq)]
pub struct TkhdF {
    pub version: u8,
    pub flags: u32,
    pub creation: u64,
    pub modification: u64,
    pub track_id: u32,
    pub duration: u64,
    pub layer: u16,
    pub alt_group: u16,
    pub volume: u16,
    pub matrix: [i32; 9],
    pub width: u32,
    pub height: u32,
}
impl Default for TkhdF {
    fn default() -> Self {
        TkhdF { version: 0, flags: 1, creation: 0, modification: 0, track_id: 1, duration: 0, layer: 0, alt_group: 0, volume: 0x100, matrix: UNITY, width: 0, height: 0 }
    }
}
pub fn enc_tkhd(f: &TkhdF) -> BoxT {
    let mut p = PB::new();
    p.fullbox(f.version, f.flags);
    if f.version == 1 {
        p.u64("creation_time", Value, f.creation).u64("modification_time", Value, f.modification);
        p.u32("track_ID", Value, f.track_id).zeros(4).u64("duration", Value, f.duration);
    } else {
        p.u32("creation_time", Value, f.creation as u32).u32("modification_time", Value, f.modification as u32);
        p.u32("track_ID", Value, f.track_id).zeros(4).u32("duration", Value, f.duration as u32);
    }
    p.zeros(8);
    p.u16("layer", Value, f.layer).u16("alternate_group", Value, f.alt_group).u16("volume", Value, f.volume).zeros(2);
    for m in f.matrix.iter() {
        p.i32("matrix", Value, *m);
    }
    p.u32("width", Value, f.width).u32("height", Value, f.height);
    BoxT::leaf(b"tkhd", p)
}

#[derive(Debug, Clone, PartialEq, Eq)]
pub struct MdhdF {
    pub version: u8,
    pub flags: u32,
    pub creation: u64,
    pub modification: u64,
    pub timescale: u32,
    pub duration: u64,
    /// three lowercase letters
    pub lang: [u8; 3],
}
impl Default for MdhdF {
    fn default() -> Self {
        MdhdF { version: 0, flags: 0, creation: 0, modification: 0, timescale: 1000, duration: 0, lang: *b"und" }
    }
}
pub fn pack_lang(l: &[u8; 3]) -> u16 {
    (((l[0].wrapping_sub(0x60)) as u16 & 0x1F) << 10) | (((l[1].wrapping_sub(0x60)) as u16 & 0x1F) << 5) | ((l[2].wrapping_sub(0x60)) as u16 & 0x1F)
}
pub fn enc_mdhd(f: &MdhdF) -> BoxT {
    let mut p = PB::new();
    p.fullbox(f.version, f.flags);
    if f.version == 1 {
        p.u64("creation_time", Value, f.creation).u64("modification_time", Value, f.modification);
        p.u32("timescale", Value, f.timescale).u64("duration", Value, f.duration);
    } else {
        p.u32("creation_time", Value, f.creation as u32).u32("modification_time", Value, f.modification as u32);
        p.u32("timescale", Value, f.timescale).u32("duration", Value, f.duration as u32);
    }
    p.u16("language", Value, pack_lang(&f.lang));
    p.zeros(2);
    BoxT::leaf(b"mdhd", p)
}

#[derive(Debug, Clone, PartialEq, Eq, Default)]
pub struct HdlrF {
    pub version: u8,
    pub flags: u32,
    pub handler: [u8; 4],
    pub name: Vec<u8>,
}
pub fn enc_hdlr(f: &HdlrF) -> BoxT {
    let mut p = PB::new();
    p.fullbox(f.version, f.flags);
    p.zeros(4);
    p.raw(&f.handler);
    p.zeros(12);
    p.cstr(&f.name);
    BoxT::leaf(b"hdlr", p)
}

pub fn enc_vmhd(version: u8, flags: u32, graphics_mode: u16, op: [u16; 3]) -> BoxT {
    let mut p = PB::new();
    p.fullbox(version, flags);
    p.u16("graphicsmode", Value, graphics_mode);
    for c in op {
        p.u16("opcolor", Value, c);
    }
    BoxT::leaf(b"vmhd", p)
}

pub fn enc_smhd(version: u8, flags: u32, balance: i16) -> BoxT {
    let mut p = PB::new();
    p.fullbox(version, flags);
    p.i16("balance", Value, balance).zeros(2);
    BoxT::leaf(b"smhd", p)
}

pub fn enc_url(version: u8, flags: u32, location: &[u8]) -> BoxT {
    let mut p = PB::new();
    p.fullbox(version, flags);
    if !location.is_empty() {
        p.cstr(location);
    }
    BoxT::leaf(b"url ", p)
}

pub fn enc_dref(version: u8, flags: u32, entries: Vec<BoxT>) -> BoxT {
    let mut p = PB::new();
    p.fullbox(version, flags);
    p.u32("entry_count", Count, entries.len() as u32);
    let mut b = BoxT::leaf(b"dref", p);
    for e in entries {
        b.push(e);
    }
    b
}

pub fn enc_dinf_default() -> BoxT {
    BoxT::container(b"dinf", vec![enc_dref(0, 0, vec![enc_url(0, 1, b"")])])
}

pub fn enc_stts(version: u8, flags: u32, e: &[(u32, u32)]) -> BoxT {
    let mut p = PB::new();
    p.fullbox(version, flags);
    p.u32("entry_count", Count, e.len() as u32);
    for (c, d) in e {
        p.u32("sample_count", Value, *c).u32("sample_delta", Value, *d);
    }
    BoxT::leaf(b"stts", p)
}

pub fn enc_ctts(version: u8, flags: u32, e: &[(u32, i32)]) -> BoxT {
    let mut p = PB::new();
    p.fullbox(version, flags);
    p.u32("entry_count", Count, e.len() as u32);
    for (c, d) in e {
        p.u32("sample_count", Value, *c).i32("sample_offset", Value, *d);
    }
    BoxT::leaf(b"ctts", p)
}

pub fn enc_stss(version: u8, flags: u32, e: &[u32]) -> BoxT {
    let mut p = PB::new();
    p.fullbox(version, flags);
    p.u32("entry_count", Count, e.len() as u32);
    for x in e {
        p.u32("sample_number", Value, *x);
    }
    BoxT::leaf(b"stss", p)
}

pub fn enc_stsc(version: u8, flags: u32, e: &[(u32, u32, u32)]) -> BoxT {
    let mut p = PB::new();
    p.fullbox(version, flags);
    p.u32("entry_count", Count, e.len() as u32);
    for (a, b, c) in e {
        p.u32("first_chunk", Value, *a).u32("samples_per_chunk", Value, *b).u32("sample_description_index", Value, *c);
    }
    BoxT::leaf(b"stsc", p)
}

pub fn enc_stsz(version: u8, flags: u32, sample_size: u32, count: u32, sizes: &[u32]) -> BoxT {
    let mut p = PB::new();
    p.fullbox(version, flags);
    p.u32("sample_size", Value, sample_size);
    p.u32("sample_count", Count, count);
    if sample_size == 0 {
        for s in sizes {
            p.u32("entry_size", Value, *s);
        }
    }
    BoxT::leaf(b"stsz", p)
}

pub fn enc_stco(version: u8, flags: u32, e: &[u32]) -> BoxT {
    let mut p = PB::new();
    p.fullbox(version, flags);
    p.u32("entry_count", Count, e.len() as u32);
    for x in e {
        p.u32("chunk_offset", Offset, *x);
    }
    BoxT::leaf(b"stco", p)
}

pub fn enc_co64(version: u8, flags: u32, e: &[u64]) -> BoxT {
    let mut p = PB::new();
    p.fullbox(version, flags);
    p.u32("entry_count", Count, e.len() as u32);
    for x in e {
        p.u64("chunk_offset", Offset, *x);
    }
    BoxT::leaf(b"co64", p)
}

#[derive(Debug, Clone, PartialEq, Eq, Default)]
pub struct ElstEntryF {
    pub segment_duration: u64,
    pub media_time: u64,
    pub rate_int: u16,
    pub rate_frac: u16,
}
pub fn enc_elst(version: u8, flags: u32, e: &[ElstEntryF]) -> BoxT {
    let mut p = PB::new();
    p.fullbox(version, flags);
    p.u32("entry_count", Count, e.len() as u32);
    for x in e {
        if version == 1 {
            p.u64("segment_duration", Value, x.segment_duration).u64("media_time", Value, x.media_time);
        } else {
            p.u32("segment_duration", Value, x.segment_duration as u32).u32("media_time", Value, x.media_time as u32);
        }
        p.u16("media_rate_integer", Value, x.rate_int).u16("media_rate_fraction", Value, x.rate_frac);
    }
    BoxT::leaf(b"elst", p)
}

pub fn enc_mehd(version: u8, flags: u32, d: u64) -> BoxT {
    let mut p = PB::new();
    p.fullbox(version, flags);
    if version == 1 {
        p.u64("fragment_duration", Value, d);
    } else {
        p.u32("fragment_duration", Value, d as u32);
    }
    BoxT::leaf(b"mehd", p)
}

#[derive(Debug, Clone, PartialEq, Eq, Default)]
pub struct TrexF {
    pub version: u8,
    pub flags: u32,
    pub track_id: u32,
    pub desc_index: u32,
    pub duration: u32,
    pub size: u32,
    pub sflags: u32,
}
pub fn enc_trex(f: &TrexF) -> BoxT {
    let mut p = PB::new();
    p.fullbox(f.version, f.flags);
    p.u32("track_ID", Value, f.track_id).u32("default_sample_description_index", Value, f.desc_index);
    p.u32("default_sample_duration", Value, f.duration).u32("default_sample_size", Value, f.size).u32("default_sample_flags", Value, f.sflags);
    BoxT::leaf(b"trex", p)
}

pub fn enc_mfhd(version: u8, flags: u32, seq: u32) -> BoxT {
    let mut p = PB::new();
    p.fullbox(version, flags);
    p.u32("sequence_number", Value, seq);
    BoxT::leaf(b"mfhd", p)
}

pub fn enc_tfdt(version: u8, flags: u32, t: u64) -> BoxT {
    let mut p = PB::new();
    p.fullbox(version, flags);
    if version == 1 {
        p.u64("baseMediaDecodeTime", Value, t);
    } else {
        p.u32("baseMediaDecodeTime", Value, t as u32);
    }
    BoxT::leaf(b"tfdt", p)
}

#[derive(Debug, Clone, PartialEq, Eq, Default)]
pub struct TfhdF {
    pub version: u8,
    /// the flag bits not gating an optional field (duration-is-empty 0x010000, default-base-is-moof 0x020000, others)
    pub extra_flags: u32,
    pub track_id: u32,
    pub base_data_offset: Option<u64>,
    pub desc_index: Option<u32>,
    pub default_duration: Option<u32>,
    pub default_size: Option<u32>,
    pub default_flags: Option<u32>,
}
impl TfhdF {
    pub fn flags(&self) -> u32 {
        let mut f = self.extra_flags & !0x3B;
        if self.base_data_offset.is_some() {
            f |= 0x01;
        }
        if self.desc_index.is_some() {
            f |= 0x02;
        }
        if self.default_duration.is_some() {
            f |= 0x08;
        }
        if self.default_size.is_some() {
            f |= 0x10;
        }
        if self.default_flags.is_some() {
            f |= 0x20;
        }
        f
    }
}
pub fn enc_tfhd(f: &TfhdF) -> BoxT {
    let mut p = PB::new();
    p.fullbox(f.version, f.flags());
    p.u32("track_ID", Value, f.track_id);
    if let Some(v) = f.base_data_offset {
        p.u64("base_data_offset", Offset, v);
    }
    if let Some(v) = f.desc_index {
        p.u32("sample_description_index", Value, v);
    }
    if let Some(v) = f.default_duration {
        p.u32("default_sample_duration", Value, v);
    }
    if let Some(v) = f.default_size {
        p.u32("default_sample_size", Value, v);
    }
    if let Some(v) = f.default_flags {
        p.u32("default_sample_flags", Value, v);
    }
    BoxT::leaf(b"tfhd", p)
}

#[derive(Debug, Clone, PartialEq, Eq, Default)]
pub struct TrunF {
    pub version: u8,
    pub extra_flags: u32,
    pub count: u32,
    pub data_offset: Option<i32>,
    pub first_sample_flags: Option<u32>,
    pub durations: Option<Vec<u32>>,
    pub sizes: Option<Vec<u32>>,
    pub sflags: Option<Vec<u32>>,
    pub cts: Option<Vec<u32>>,
}
impl TrunF {
    pub fn flags(&self) -> u32 {
        let mut f = self.extra_flags & !0xF05;
        if self.data_offset.is_some() {
            f |= 0x001;
        }
        if self.first_sample_flags.is_some() {
            f |= 0x004;
        }
        if self.durations.is_some() {
            f |= 0x100;
        }
        if self.sizes.is_some() {
            f |= 0x200;
        }
        if self.sflags.is_some() {
            f |= 0x400;
        }
        if self.cts.is_some() {
            f |= 0x800;
        }
        f
    }
}
pub fn enc_trun(f: &TrunF) -> BoxT {
    let mut p = PB::new();
    p.fullbox(f.version, f.flags());
    p.u32("sample_count", Count, f.count);
    if let Some(v) = f.data_offset {
        p.i32("data_offset", Offset, v);
    }
    if let Some(v) = f.first_sample_flags {
        p.u32("first_sample_flags", Value, v);
    }
    for i in 0..f.count as usize {
        if let Some(v) = &f.durations {
            p.u32("sample_duration", Value, v[i]);
        }
        if let Some(v) = &f.sizes {
            p.u32("sample_size", Value, v[i]);
        }
        if let Some(v) = &f.sflags {
            p.u32("sample_flags", Value, v[i]);
        }
        if let Some(v) = &f.cts {
            p.u32("sample_composition_time_offset", Value, v[i]);
        }
    }
    BoxT::leaf(b"trun", p)
}

#[derive(Debug, Clone, PartialEq, Eq, Default)]
pub struct EmsgF {
    pub version: u8,
    pub flags: u32,
    pub timescale: u32,
    pub presentation_time: u64,
    pub presentation_time_delta: u32,
    pub event_duration: u32,
    pub id: u32,
    pub scheme: Vec<u8>,
    pub value: Vec<u8>,
    pub data: Vec<u8>,
}
pub fn enc_emsg(f: &EmsgF) -> BoxT {
    let mut p = PB::new();
    p.fullbox(f.version, f.flags);
    if f.version == 0 {
        p.cstr(&f.scheme).cstr(&f.value);
        p.u32("timescale", Value, f.timescale).u32("presentation_time_delta", Value, f.presentation_time_delta);
        p.u32("event_duration", Value, f.event_duration).u32("id", Value, f.id);
    } else {
        p.u32("timescale", Value, f.timescale).u64("presentation_time", Value, f.presentation_time);
        p.u32("event_duration", Value, f.event_duration).u32("id", Value, f.id);
        p.cstr(&f.scheme).cstr(&f.value);
    }
    p.raw(&f.data);
    BoxT::leaf(b"emsg", p)
}

#[derive(Debug, Clone, PartialEq, Eq)]
pub struct VisualF {
    pub data_ref_index: u16,
    pub width: u16,
    pub height: u16,
    pub hres: u32,
    pub vres: u32,
    pub frame_count: u16,
    pub compressor: [u8; 32],
    pub depth: u16,
}
impl Default for VisualF {
    fn default() -> Self {
        VisualF { data_ref_index: 1, width: 320, height: 240, hres: 0x48_0000, vres: 0x48_0000, frame_count: 1, compressor: [0; 32], depth: 24 }
    }
}
pub fn visual_prefix(f: &VisualF) -> PB {
    let mut p = PB::new();
    p.zeros(6);
    p.u16("data_reference_index", Value, f.data_ref_index);
    p.zeros(16);
    p.u16("width", Value, f.width).u16("height", Value, f.height);
    p.u32("horizresolution", Value, f.hres).u32("vertresolution", Value, f.vres);
    p.zeros(4);
    p.u16("frame_count", Value, f.frame_count);
    p.raw(&f.compressor);
    p.u16("depth", Value, f.depth);
    p.i16("pre_defined", Value, -1);
    p
}

#[derive(Debug, Clone, PartialEq, Eq, Default)]
pub struct AvcCF {
    pub version: u8,
    pub profile: u8,
    pub compat: u8,
    pub level: u8,
    pub length_size_minus_one: u8,
    pub sps: Vec<Vec<u8>>,
    pub pps: Vec<Vec<u8>>,
}
pub fn enc_avcc(f: &AvcCF) -> BoxT {
    let mut p = PB::new();
    p.u8("configurationVersion", Value, f.version).u8("AVCProfileIndication", Value, f.profile);
    p.u8("profile_compatibility", Value, f.compat).u8("AVCLevelIndication", Value, f.level);
    p.u8("lengthSizeMinusOne", Value, 0xFC | (f.length_size_minus_one & 3));
    p.u8("numOfSequenceParameterSets", Count, 0xE0 | (f.sps.len() as u8 & 0x1F));
    for s in &f.sps {
        p.u16("sequenceParameterSetLength", Length, s.len() as u16).raw(s);
    }
    p.u8("numOfPictureParameterSets", Count, f.pps.len() as u8);
    for s in &f.pps {
        p.u16("pictureParameterSetLength", Length, s.len() as u16).raw(s);
    }
    BoxT::leaf(b"avcC", p)
}

#[derive(Debug, Clone, PartialEq, Eq, Default)]
pub struct HvcCArrayF {
    pub completeness: bool,
    pub nal_type: u8,
    pub nalus: Vec<Vec<u8>>,
}
#[derive(Debug, Clone, PartialEq, Eq, Default)]
pub struct HvcCF {
    pub version: u8,
    pub profile_space: u8,
    pub tier: bool,
    pub profile_idc: u8,
    pub compat_flags: u32,
    pub constraint_flags: u64,
    pub level_idc: u8,
    pub min_spatial_seg: u16,
    pub parallelism: u8,
    pub chroma_format: u8,
    pub luma_m8: u8,
    pub chroma_m8: u8,
    pub avg_frame_rate: u16,
    pub constant_frame_rate: u8,
    pub num_temporal_layers: u8,
    pub temporal_id_nested: bool,
    pub length_size_minus_one: u8,
    pub arrays: Vec<HvcCArrayF>,
    /// value of the reserved bits (true: as the specification prescribes, all ones)
    pub reserved_ones: bool,
}
pub fn enc_hvcc(f: &HvcCF) -> BoxT {
    let r = |n: u32| if f.reserved_ones { (1u64 << n) - 1 } else { 0 };
    let mut p = PB::new();
    p.u8("configurationVersion", Value, f.version);
    p.bits(2, f.profile_space as u64).bits(1, f.tier as u64).bits(5, f.profile_idc as u64);
    p.u32("general_profile_compatibility_flags", Value, f.compat_flags);
    p.u48("general_constraint_indicator_flags", Value, f.constraint_flags);
    p.u8("general_level_idc", Value, f.level_idc);
    p.bits(4, r(4)).bits(12, f.min_spatial_seg as u64);
    p.bits(6, r(6)).bits(2, f.parallelism as u64);
    p.bits(6, r(6)).bits(2, f.chroma_format as u64);
    p.bits(5, r(5)).bits(3, f.luma_m8 as u64);
    p.bits(5, r(5)).bits(3, f.chroma_m8 as u64);
    p.u16("avgFrameRate", Value, f.avg_frame_rate);
    p.bits(2, f.constant_frame_rate as u64).bits(3, f.num_temporal_layers as u64).bits(1, f.temporal_id_nested as u64).bits(2, f.length_size_minus_one as u64);
    p.u8("numOfArrays", Count, f.arrays.len() as u8);
    for a in &f.arrays {
        p.bits(1, a.completeness as u64).bits(1, 0).bits(6, a.nal_type as u64);
        p.u16("numNalus", Count, a.nalus.len() as u16);
        for n in &a.nalus {
            p.u16("nalUnitLength", Length, n.len() as u16).raw(n);
        }
    }
    BoxT::leaf(b"hvcC", p)
}

#[derive(Debug, Clone, PartialEq, Eq, Default)]
pub struct VpcCF {
    pub version: u8,
    pub flags: u32,
    pub profile: u8,
    pub level: u8,
    pub bit_depth: u8,
    pub chroma_subsampling: u8,
    pub full_range: bool,
    pub colour_primaries: u8,
    pub transfer: u8,
    pub matrix: u8,
    pub codec_init_size: u16,
}
pub fn enc_vpcc(f: &VpcCF) -> BoxT {
    let mut p = PB::new();
    p.fullbox(f.version, f.flags);
    p.u8("profile", Value, f.profile).u8("level", Value, f.level);
    p.bits(4, f.bit_depth as u64).bits(3, f.chroma_subsampling as u64).bits(1, f.full_range as u64);
    p.u8("colourPrimaries", Value, f.colour_primaries).u8("transferCharacteristics", Value, f.transfer).u8("matrixCoefficients", Value, f.matrix);
    p.u16("codecIntializationDataSize", Length, f.codec_init_size);
    BoxT::leaf(b"vpcC", p)
}

pub fn enc_visual(typ: &[u8; 4], v: &VisualF, children: Vec<BoxT>) -> BoxT {
    let mut b = BoxT::leaf(typ, visual_prefix(v));
    for c in children {
        b.push(c);
    }
    b
}

/// Descriptor length: 1..=4 bytes, 7 bits each, MSB = continuation. `pad`: force this many bytes.
pub fn desc_len(p: &mut PB, len: usize, pad: usize) {
    let mut n = 1;
    while n < 4 && (len >> (7 * n)) != 0 {
        n += 1;
    }
    let n = n.max(pad).min(4);
    for i in (0..n).rev() {
        let mut b = ((len >> (7 * i)) & 0x7F) as u8;
        if i != 0 {
            b |= 0x80;
        }
        p.u8("descriptor_length", Length, b);
    }
}

#[derive(Debug, Clone, PartialEq, Eq, Default)]
pub struct EsdsF {
    pub version: u8,
    pub flags: u32,
    pub es_id: u16,
    pub object_type: u8,
    pub stream_type: u8,
    pub up_stream: bool,
    pub buffer_size: u32,
    pub max_bitrate: u32,
    pub avg_bitrate: u32,
    /// AudioSpecificConfig: object type (1..=95), frequency index (0..=15), explicit rate when index 15, channel configuration
    pub aot: u8,
    pub freq_index: u8,
    pub freq: u32,
    pub chan: u8,
    /// extra bytes of codec specific configuration after the common prefix
    pub asc_tail_bits: u8,
    /// forced length-field widths at the four levels (ES, DecoderConfig, DecSpecific, SL); 0 = minimal
    pub pad: [usize; 4],
}
pub fn enc_asc(f: &EsdsF) -> Vec<u8> {
    let mut p = PB::new();
    if f.aot >= 32 {
        p.bits(5, 31).bits(6, (f.aot - 32) as u64);
    } else {
        p.bits(5, f.aot as u64);
    }
    p.bits(4, f.freq_index as u64);
    if f.freq_index == 15 {
        p.bits(24, f.freq as u64);
    }
    p.bits(4, f.chan as u64);
    // GASpecificConfig-ish tail: zero bits up to the next byte boundary
    let used = (if f.aot >= 32 { 11 } else { 5 }) + 4 + if f.freq_index == 15 { 24 } else { 0 } + 4;
    let rem = (8 - used % 8) % 8;
    if rem > 0 {
        p.bits(rem as u32, 0);
    }
    p.b
}
pub fn enc_esds(f: &EsdsF) -> BoxT {
    let asc = enc_asc(f);
    // DecoderSpecificInfo
    let mut dsi = PB::new();
    dsi.u8("tag", Value, 0x05);
    desc_len(&mut dsi, asc.len(), f.pad[2]);
    dsi.raw(&asc);
    // DecoderConfigDescriptor
    let mut dcd_body = PB::new();
    dcd_body.u8("objectTypeIndication", Value, f.object_type);
    dcd_body.bits(6, f.stream_type as u64).bits(1, f.up_stream as u64).bits(1, 1);
    dcd_body.u24("bufferSizeDB", Value, f.buffer_size).u32("maxBitrate", Value, f.max_bitrate).u32("avgBitrate", Value, f.avg_bitrate);
    let mut dcd = PB::new();
    dcd.u8("tag", Value, 0x04);
    desc_len(&mut dcd, dcd_body.b.len() + dsi.b.len(), f.pad[1]);
    dcd.raw(&dcd_body.b).raw(&dsi.b);
    // SLConfigDescriptor
    let mut sl = PB::new();
    sl.u8("tag", Value, 0x06);
    desc_len(&mut sl, 1, f.pad[3]);
    sl.u8("predefined", Value, 2);
    // ES_Descriptor
    let mut p = PB::new();
    p.fullbox(f.version, f.flags);
    p.u8("tag", Value, 0x03);
    desc_len(&mut p, 3 + dcd.b.len() + sl.b.len(), f.pad[0]);
    p.u16("ES_ID", Value, f.es_id).u8("flags", Value, 0);
    p.raw(&dcd.b).raw(&sl.b);
    BoxT::leaf(b"esds", p)
}

#[derive(Debug, Clone, PartialEq, Eq)]
pub struct AudioF {
    pub data_ref_index: u16,
    pub channelcount: u16,
    pub samplesize: u16,
    pub samplerate: u32,
}
impl Default for AudioF {
    fn default() -> Self {
        AudioF { data_ref_index: 1, channelcount: 2, samplesize: 16, samplerate: 48000 << 16 }
    }
}
pub fn enc_mp4a(a: &AudioF, children: Vec<BoxT>) -> BoxT {
    let mut p = PB::new();
    p.zeros(6);
    p.u16("data_reference_index", Value, a.data_ref_index);
    p.zeros(8);
    p.u16("channelcount", Value, a.channelcount).u16("samplesize", Value, a.samplesize);
    p.zeros(4);
    p.u32("samplerate", Value, a.samplerate);
    let mut b = BoxT::leaf(b"mp4a", p);
    for c in children {
        b.push(c);
    }
    b
}

#[derive(Debug, Clone, PartialEq, Eq)]
pub struct Tx3gF {
    pub data_ref_index: u16,
    pub display_flags: u32,
    pub hjust: i8,
    pub vjust: i8,
    pub bg: [u8; 4],
    pub box_record: [i16; 4],
    pub style: [u8; 12],
}
impl Default for Tx3gF {
    fn default() -> Self {
        Tx3gF { data_ref_index: 1, display_flags: 0, hjust: 1, vjust: -1, bg: [0, 0, 0, 255], box_record: [0; 4], style: [0, 0, 0, 0, 0, 1, 0, 16, 255, 255, 255, 255] }
    }
}
pub fn enc_tx3g(f: &Tx3gF) -> BoxT {
    let mut p = PB::new();
    p.zeros(6);
    p.u16("data_reference_index", Value, f.data_ref_index);
    p.u32("displayFlags", Value, f.display_flags);
    p.u8("horizontal-justification", Value, f.hjust as u8).u8("vertical-justification", Value, f.vjust as u8);
    p.raw(&f.bg);
    for x in f.box_record {
        p.i16("box", Value, x);
    }
    p.raw(&f.style);
    BoxT::leaf(b"tx3g", p)
}

pub fn enc_stsd(version: u8, flags: u32, entries: Vec<BoxT>) -> BoxT {
    let mut p = PB::new();
    p.fullbox(version, flags);
    p.u32("entry_count", Count, entries.len() as u32);
    let mut b = BoxT::leaf(b"stsd", p);
    for e in entries {
        b.push(e);
    }
    b
}

pub fn enc_data(data_type: u32, locale: u32, payload: &[u8]) -> BoxT {
    let mut p = PB::new();
    p.u32("type", Value, data_type).u32("locale", Value, locale);
    p.raw(payload);
    BoxT::leaf(b"data", p)
}

pub fn enc_item(typ: &[u8; 4], data_type: u32, payload: &[u8]) -> BoxT {
    BoxT::container(typ, vec![enc_data(data_type, 0, payload)])
}

/// `meta`: ISO form has a FullBox header, the QuickTime form does not.
pub fn enc_meta(fullbox: bool, children: Vec<BoxT>) -> BoxT {
    let mut b = BoxT::new(b"meta");
    if fullbox {
        let mut p = PB::new();
        p.fullbox(0, 0);
        b.data(p);
    }
    for c in children {
        b.push(c);
    }
    b
}

pub fn free_box(typ: &[u8; 4], n: usize, fill: u8) -> BoxT {
    let mut p = PB::new();
    p.raw(&vec![fill; n]);
    BoxT::leaf(typ, p)
}
