//! Worker-side result recording: journal (BEGIN lines for abort attribution), failures,
//! known-finding hits, coverage fingerprints, samples and statistics.

use serde_json::{json, Map, Value};
use std::collections::{BTreeMap, BTreeSet, HashSet};
use std::fs::File;
use std::io::Write;

pub struct Args {
    pub prop: String,
    pub tier: String,
    pub seed: u64,
    pub shard: u64,
    pub nshards: u64,
    pub out: String,
    pub only: Option<String>,
    pub profile: String,
    pub extra: Vec<String>,
}

impl Args {
    pub fn thorough(&self) -> bool {
        self.tier == "thorough"
    }
    /// does this shard own case index i
    pub fn mine(&self, i: u64) -> bool {
        i % self.nshards == self.shard
    }
    /// scale a quick count for the thorough tier
    pub fn scale(&self, quick: u64, thorough: u64) -> u64 {
        if self.thorough() {
            thorough
        } else {
            quick
        }
    }
    pub fn want(&self, case_id: &str) -> bool {
        match &self.only {
            None => true,
            Some(o) => o == case_id,
        }
    }
    pub fn has_extra(&self, s: &str) -> bool {
        self.extra.iter().any(|x| x == s)
    }
}

pub struct Report {
    pub prop: String,
    out: File,
    journal: bool,
    pub evals: u64,
    pub cov: HashSet<u64>,
    pub nontrivial: HashSet<u64>,
    pub samples: Vec<Value>,
    pub fails: u64,
    pub knowns: BTreeMap<String, u64>,
    pub maxes: BTreeMap<String, f64>,
    pub sums: BTreeMap<String, u64>,
    pub sets: BTreeMap<String, BTreeSet<String>>,
    pub max_fails: u64,
    pub verbose: bool,
    /// CPU seconds a single case may burn before the watchdog kills the worker
    pub case_cpu_s: u64,
}

impl Report {
    pub fn new(args: &Args, journal: bool) -> Report {
        let path = format!("{}/shard_{}.jsonl", args.out, args.shard);
        let out = File::create(&path).unwrap_or_else(|e| panic!("cannot create {}: {}", path, e));
        Report {
            prop: args.prop.clone(),
            out,
            journal,
            evals: 0,
            cov: HashSet::new(),
            nontrivial: HashSet::new(),
            samples: Vec::new(),
            fails: 0,
            knowns: BTreeMap::new(),
            maxes: BTreeMap::new(),
            sums: BTreeMap::new(),
            sets: BTreeMap::new(),
            max_fails: 12,
            verbose: args.only.is_some(),
            case_cpu_s: 30,
        }
    }

    fn line(&mut self, v: &Value) {
        let s = serde_json::to_string(v).unwrap();
        let _ = self.out.write_all(s.as_bytes());
        let _ = self.out.write_all(b"\n");
        let _ = self.out.flush();
    }

    /// Journal the start of a case (only when journaling is on: hostile-input properties).
    pub fn begin(&mut self, case_id: &str) {
        self.evals += 1;
        if self.journal {
            crate::cpu::arm_case_limit(self.case_cpu_s);
            let v = json!({"t":"begin","case":case_id});
            self.line(&v);
        }
    }

    pub fn begin_with(&mut self, case_id: &str, replay: &Value) {
        self.evals += 1;
        if self.journal {
            crate::cpu::arm_case_limit(self.case_cpu_s);
            let v = json!({"t":"begin","case":case_id,"replay":replay});
            self.line(&v);
        }
    }

    pub fn end(&mut self) {
        if self.journal {
            let v = json!({"t":"end"});
            self.line(&v);
        }
    }

    pub fn fail(&mut self, prop: &str, case_id: &str, rule: &str, detail: Value) {
        self.fails += 1;
        if self.fails <= self.max_fails {
            let v = json!({"t":"fail","prop":prop,"case":case_id,"rule":rule,"detail":detail});
            self.line(&v);
        }
    }

    pub fn too_many_fails(&self) -> bool {
        self.fails >= self.max_fails
    }

    pub fn known(&mut self, prop: &str, kid: &str, what: &str) {
        let k = format!("{}|{}|{}", prop, kid, what);
        *self.knowns.entry(k).or_insert(0) += 1;
    }

    pub fn cover(&mut self, h: u64) {
        self.cov.insert(h);
    }
    pub fn cover_str(&mut self, s: &str) {
        self.cov.insert(crate::prng::hash_str(s));
    }
    /// a distinct AND non-trivial case fingerprint
    pub fn cover_nt(&mut self, h: u64) {
        self.cov.insert(h);
        self.nontrivial.insert(h);
    }
    pub fn sample(&mut self, v: Value) {
        if self.samples.len() < 4 {
            self.samples.push(v);
        }
    }
    pub fn want_sample(&self) -> bool {
        self.samples.len() < 4
    }
    pub fn max(&mut self, k: &str, v: f64) {
        let e = self.maxes.entry(k.to_string()).or_insert(f64::MIN);
        if v > *e {
            *e = v;
        }
    }
    pub fn add(&mut self, k: &str, v: u64) {
        *self.sums.entry(k.to_string()).or_insert(0) += v;
    }
    pub fn note(&mut self, set: &str, item: &str) {
        let s = self.sets.entry(set.to_string()).or_default();
        if s.len() < 400 {
            s.insert(item.to_string());
        }
    }

    pub fn finish(mut self) -> i32 {
        let mut m = Map::new();
        m.insert("t".into(), json!("sum"));
        m.insert("evals".into(), json!(self.evals));
        m.insert("fails".into(), json!(self.fails));
        let cov: Vec<String> = self.cov.iter().map(|h| format!("{:016x}", h)).collect();
        let nt: Vec<String> = self.nontrivial.iter().map(|h| format!("{:016x}", h)).collect();
        m.insert("cov".into(), json!(cov));
        m.insert("nt".into(), json!(nt));
        m.insert("samples".into(), json!(self.samples));
        m.insert("knowns".into(), json!(self.knowns));
        m.insert("maxes".into(), json!(self.maxes));
        m.insert("sums".into(), json!(self.sums));
        m.insert("sets".into(), json!(self.sets));
        let v = Value::Object(m);
        self.line(&v);
        if self.fails > 0 {
            1
        } else {
            0
        }
    }
}

pub fn hex(b: &[u8]) -> String {
    let mut s = String::with_capacity(b.len() * 2);
    for x in b {
        s.push_str(&format!("{:02x}", x));
    }
    s
}

pub fn hex_trunc(b: &[u8], max: usize) -> String {
    if b.len() <= max {
        hex(b)
    } else {
        format!("{}..(+{} bytes)", hex(&b[..max]), b.len() - max)
    }
}

pub fn unhex(s: &str) -> Vec<u8> {
    let b = s.as_bytes();
    let mut v = Vec::with_capacity(b.len() / 2);
    let mut i = 0;
    while i + 1 < b.len() {
        let h = (b[i] as char).to_digit(16).unwrap_or(0) as u8;
        let l = (b[i + 1] as char).to_digit(16).unwrap_or(0) as u8;
        v.push(h << 4 | l);
        i += 2;
    }
    v
}
