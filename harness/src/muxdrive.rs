//! Muxer call-history generator, executor and sequential-model oracles (C01, C02, C14, C17;
//! reused by C10, C13, C15).

use crate::panicmon::{self, PanicInfo};
use crate::prng::Rng;
use crate::refdec::{self, Src};
use mp4::*;
use serde_json::{json, Value};
use std::convert::TryFrom;
use std::io::{Read, Seek, Write};
use std::result::Result;

#[derive(Debug, Clone, PartialEq, Eq)]
pub enum Media {
    Avc { w: u16, h: u16, sps: Vec<u8>, pps: Vec<u8> },
    Hevc { w: u16, h: u16 },
    Vp9 { w: u16, h: u16 },
    Aac { bitrate: u32, profile: u8, freq: u8, chan: u8 },
    Ttxt,
}

impl Media {
    pub fn name(&self) -> &'static str {
        match self {
            Media::Avc { .. } => "avc",
            Media::Hevc { .. } => "hevc",
            Media::Vp9 { .. } => "vp9",
            Media::Aac { .. } => "aac",
            Media::Ttxt => "ttxt",
        }
    }
}

#[derive(Debug, Clone, PartialEq, Eq)]
pub struct TrackSpec {
    /// 0 video, 1 audio, 2 subtitle
    pub kind: u8,
    pub timescale: u32,
    pub language: String,
    pub media: Media,
}

#[derive(Debug, Clone, PartialEq, Eq)]
pub struct SampleSpec {
    pub size: u32,
    pub fill: u64,
    pub duration: u32,
    pub cts: i32,
    pub sync: bool,
}

#[derive(Debug, Clone, PartialEq, Eq)]
pub enum Op {
    Add(TrackSpec),
    /// track_id as passed to the API (may be invalid)
    Write { track_id: u32, s: SampleSpec },
    End,
}

#[derive(Debug, Clone, PartialEq, Eq)]
pub struct History {
    pub major: [u8; 4],
    pub minor: u32,
    pub brands: Vec<[u8; 4]>,
    pub timescale: u32,
    pub ops: Vec<Op>,
}

/// Samples of at least this size use the synthetic payload format (tag + shared filler),
/// which the sparse stream can store as a run-length extent.
pub const SYN_MIN: usize = 1 << 20;

/// Samples are opaque bytes to the muxer and to the file format - but real payloads have
/// shapes, and a "helpful" muxer or reader might act on them. Seven fill seeds in sixteen give
/// the sample a codec-shaped beginning whose embedded length (where there is one) matches the
/// sample size exactly: an ADTS header without / with CRC (AAC elementary streams), Annex B
/// start codes (H.264 / H.265 byte streams), a 4-byte length prefix (length-prefixed NAL
/// units), a 2-byte length prefix (3GPP timed text), a UTF-8 byte order mark. Whatever the
/// track kind: every sample must come back byte for byte.
pub fn shape_prefix(fill: u64, size: usize) -> ([u8; 9], usize) {
    let mut p = [0u8; 9];
    let sel = (fill >> 7) % 16;
    let fl = size as u32;
    let adts = |p: &mut [u8; 9], crc: bool| {
        p[0] = 0xFF;
        p[1] = if crc { 0xF0 } else { 0xF1 };
        p[2] = (1 << 6) | (4 << 2) | 0; // AAC LC, 44.1 kHz
        p[3] = (2 << 6) | ((fl >> 11) & 3) as u8; // stereo, frame_length bits 12..11
        p[4] = ((fl >> 3) & 0xFF) as u8;
        p[5] = (((fl & 7) << 5) as u8) | 0x1F;
        p[6] = 0xFC;
    };
    match sel {
        3 if size >= 8 && size <= 8191 => { adts(&mut p, false); (p, 7) }
        4 if size >= 10 && size <= 8191 => { adts(&mut p, true); p[7] = 0xAB; p[8] = 0xCD; (p, 9) }
        5 if size >= 5 => { p[3] = 1; p[4] = 0x65; (p, 5) }
        6 if size >= 4 => { p[2] = 1; p[3] = 0x41; (p, 4) }
        7 if size >= 4 => { p[..4].copy_from_slice(&(fl - 4).to_be_bytes()); (p, 4) }
        8 if size >= 2 && size <= 65537 => { p[..2].copy_from_slice(&((fl - 2) as u16).to_be_bytes()); (p, 2) }
        9 if size >= 3 => { p[..3].copy_from_slice(&[0xEF, 0xBB, 0xBF]); (p, 3) }
        _ => (p, 0),
    }
}

pub fn sample_bytes(fill: u64, size: usize) -> Vec<u8> {
    if size >= SYN_MIN {
        return crate::streams::synth_payload(fill, size);
    }
    let mut v = Vec::with_capacity(size);
    for i in 0..size {
        v.push(crate::streams::fill_byte(fill, i as u64));
    }
    let (p, n) = shape_prefix(fill, size);
    v[..n].copy_from_slice(&p[..n]);
    v
}

pub fn sample_byte_at(fill: u64, size: usize, i: u64) -> u8 {
    if size >= SYN_MIN {
        crate::streams::synth_byte(fill, size as u64, i)
    } else {
        let (p, n) = shape_prefix(fill, size);
        if (i as usize) < n {
            p[i as usize]
        } else {
            crate::streams::fill_byte(fill, i)
        }
    }
}

fn track_type(kind: u8) -> TrackType {
    match kind {
        0 => TrackType::Video,
        1 => TrackType::Audio,
        _ => TrackType::Subtitle,
    }
}

pub fn media_config(m: &Media) -> MediaConfig {
    match m {
        Media::Avc { w, h, sps, pps } => MediaConfig::AvcConfig(AvcConfig {
            width: *w,
            height: *h,
            seq_param_set: sps.clone(),
            pic_param_set: pps.clone(),
        }),
        Media::Hevc { w, h } => MediaConfig::HevcConfig(HevcConfig { width: *w, height: *h }),
        Media::Vp9 { w, h } => MediaConfig::Vp9Config(Vp9Config { width: *w, height: *h }),
        Media::Aac { bitrate, profile, freq, chan } => MediaConfig::AacConfig(AacConfig {
            bitrate: *bitrate,
            profile: AudioObjectType::try_from(*profile).expect("generator produces valid AOT"),
            freq_index: SampleFreqIndex::try_from(*freq).expect("generator produces valid freq index"),
            chan_conf: ChannelConfig::try_from(*chan).expect("generator produces valid channel config"),
        }),
        Media::Ttxt => MediaConfig::TtxtConfig(TtxtConfig {}),
    }
}

pub fn track_config(t: &TrackSpec) -> TrackConfig {
    TrackConfig {
        track_type: track_type(t.kind),
        timescale: t.timescale,
        language: t.language.clone(),
        media_conf: media_config(&t.media),
    }
}

pub fn mp4_config(h: &History) -> Mp4Config {
    Mp4Config {
        major_brand: FourCC::from(h.major),
        minor_version: h.minor,
        compatible_brands: h.brands.iter().map(|b| FourCC::from(*b)).collect(),
        timescale: h.timescale,
    }
}

impl History {
    pub fn to_json(&self) -> Value {
        let ops: Vec<Value> = self
            .ops
            .iter()
            .map(|o| match o {
                Op::Add(t) => json!({"add": {"kind": t.kind, "ts": t.timescale, "lang": t.language, "media": format!("{:?}", t.media)}}),
                Op::Write { track_id, s } => json!({"w": [track_id, s.size, s.duration, s.cts, s.sync, s.fill]}),
                Op::End => json!("end"),
            })
            .collect();
        json!({
            "major": String::from_utf8_lossy(&self.major),
            "minor": self.minor,
            "brands": self.brands.iter().map(|b| String::from_utf8_lossy(b).to_string()).collect::<Vec<_>>(),
            "timescale": self.timescale,
            "ops": ops,
        })
    }

    pub fn short(&self) -> String {
        let mut s = format!("ts={} ", self.timescale);
        let mut n = 0;
        for o in &self.ops {
            if n > 40 {
                s.push_str("...");
                break;
            }
            match o {
                Op::Add(t) => s.push_str(&format!("A({},{}) ", t.media.name(), t.timescale)),
                Op::Write { track_id, s: sp } => s.push_str(&format!(
                    "W{}[{}B d{} c{} {}] ",
                    track_id,
                    sp.size,
                    sp.duration,
                    sp.cts,
                    if sp.sync { "S" } else { "-" }
                )),
                Op::End => s.push_str("E "),
            }
            n += 1;
        }
        s
    }

    /// Tracks in the order added.
    pub fn tracks(&self) -> Vec<&TrackSpec> {
        // the tracks the muxer accepts (see `add_must_be_rejected`)
        self.ops.iter().filter_map(|o| if let Op::Add(t) = o { if add_must_be_rejected(t) { None } else { Some(t) } } else { None }).collect()
    }

    /// The sequential model: per track the accepted samples (a write is accepted iff its track
    /// id names a track added before it), plus the indices of rejected ops.
    pub fn model(&self) -> (Vec<Vec<SampleSpec>>, Vec<usize>) {
        let mut tracks: Vec<Vec<SampleSpec>> = Vec::new();
        let mut rejected = Vec::new();
        for (i, o) in self.ops.iter().enumerate() {
            match o {
                // an add_track the muxer must reject (documented preconditions) adds no track
                // and consumes no id: later tracks are numbered as if it had never been made
                Op::Add(t) if add_must_be_rejected(t) => rejected.push(i),
                Op::Add(_) => tracks.push(Vec::new()),
                Op::Write { track_id, s } => {
                    if *track_id >= 1 && (*track_id as usize) <= tracks.len() {
                        tracks[*track_id as usize - 1].push(s.clone());
                    } else {
                        rejected.push(i);
                    }
                }
                Op::End => {}
            }
        }
        (tracks, rejected)
    }

    /// The same history without the calls the muxer must reject.
    pub fn without_rejected(&self) -> History {
        let (_, rej) = self.model();
        let mut h = self.clone();
        let mut i = 0;
        h.ops.retain(|_| {
            let keep = !rej.contains(&i);
            i += 1;
            keep
        });
        h
    }
}

/// add_track preconditions: a non-zero timescale; an SPS of 4..=65535 bytes and a PPS of at
/// most 65535 bytes for AVC.
pub fn add_must_be_rejected(t: &TrackSpec) -> bool {
    if t.timescale == 0 {
        return true;
    }
    match &t.media {
        Media::Avc { sps, pps, .. } => sps.len() < 4 || sps.len() > 65535 || pps.len() > 65535,
        _ => false,
    }
}

#[derive(Debug, Clone)]
pub enum CallRes {
    Ok,
    Err { io: bool, msg: String },
    Panic(PanicInfo),
}

impl CallRes {
    pub fn is_ok(&self) -> bool {
        matches!(self, CallRes::Ok)
    }
    pub fn tag(&self) -> String {
        match self {
            CallRes::Ok => "ok".into(),
            CallRes::Err { io, msg } => format!("err{}:{}", if *io { "(io)" } else { "" }, msg),
            CallRes::Panic(p) => format!("panic@{}:{}", p.site(), p.msg),
        }
    }
}

fn to_res<T>(r: Result<mp4::Result<T>, PanicInfo>) -> (CallRes, Option<T>) {
    match r {
        Ok(Ok(v)) => (CallRes::Ok, Some(v)),
        Ok(Err(e)) => {
            let io = matches!(e, mp4::Error::IoError(_));
            (CallRes::Err { io, msg: e.to_string() }, None)
        }
        Err(p) => (CallRes::Panic(p), None),
    }
}

pub struct MuxRun<W> {
    /// result of write_start, then of each op in order (stops after a panic or failed start)
    pub start: CallRes,
    pub calls: Vec<CallRes>,
    pub writer: Option<W>,
    pub ended_ok: bool,
}

/// Execute a history against the real muxer over stream `w`. `observe` is called after every
/// op with the live writer (for hook snapshots / stream inspection).
pub fn run_history<W: Write + Seek>(
    h: &History,
    w: W,
    mut observe: impl FnMut(usize, &Op, &CallRes, &Mp4Writer<W>),
) -> MuxRun<W> {
    let cfg = mp4_config(h);
    let (start, wr) = to_res(panicmon::catch(move || Mp4Writer::write_start(w, &cfg)));
    let mut run = MuxRun { start, calls: Vec::new(), writer: None, ended_ok: false };
    let mut wr = match wr {
        Some(w) => w,
        None => return run,
    };
    let mut all_ok = true;
    let mut ended = false;
    for (i, op) in h.ops.iter().enumerate() {
        let res = match op {
            Op::Add(t) => {
                let tc = track_config(t);
                to_res(panicmon::catch(|| wr.add_track(&tc))).0
            }
            Op::Write { track_id, s } => {
                let sample = Mp4Sample {
                    start_time: 0,
                    duration: s.duration,
                    rendering_offset: s.cts,
                    is_sync: s.sync,
                    bytes: Bytes::from(sample_bytes(s.fill, s.size as usize)),
                };
                to_res(panicmon::catch(|| wr.write_sample(*track_id, &sample))).0
            }
            Op::End => {
                let r = to_res(panicmon::catch(|| wr.write_end())).0;
                if r.is_ok() {
                    ended = true;
                }
                r
            }
        };
        let is_panic = matches!(res, CallRes::Panic(_));
        if !res.is_ok() {
            // a rejected write (unknown track) or a rejected add_track (violated precondition)
            // is an expected Err and does not spoil the run
            let expected_reject = matches!((&res, op), (CallRes::Err { io: false, .. }, Op::Write { .. }) | (CallRes::Err { io: false, .. }, Op::Add(_)))
                && h.model().1.contains(&i);
            if !expected_reject {
                all_ok = false;
            }
        }
        observe(i, op, &res, &wr);
        run.calls.push(res);
        if is_panic {
            return run;
        }
    }
    run.ended_ok = all_ok && ended;
    run.writer = Some(wr.into_writer());
    run
}

pub type Fails = Vec<(String, Value)>;

fn push(f: &mut Fails, rule: &str, v: Value) {
    if f.len() < 8 {
        f.push((rule.to_string(), v));
    }
}

/// C01 oracle: open the bytes with the library reader and compare with the sequential model.
pub fn check_readback<R: Read + Seek>(h: &History, reader: R, len: u64) -> Fails {
    let mut f = Fails::new();
    let (model, _) = h.model();
    let r = panicmon::catch(|| Mp4Reader::read_header(reader, len));
    let mut mp4 = match r {
        Err(p) => {
            push(&mut f, "reader_panic", json!({"site": p.site(), "msg": p.msg}));
            return f;
        }
        Ok(Err(e)) => {
            push(&mut f, "reader_open_error", json!({"err": e.to_string()}));
            return f;
        }
        Ok(Ok(m)) => m,
    };
    if mp4.tracks().len() != model.len() {
        push(&mut f, "track_count", json!({"got": mp4.tracks().len(), "want": model.len()}));
    }
    let mut ids: Vec<u32> = mp4.tracks().keys().cloned().collect();
    ids.sort();
    let want_ids: Vec<u32> = (1..=model.len() as u32).collect();
    if ids != want_ids {
        push(&mut f, "track_ids", json!({"got": ids, "want": want_ids}));
        return f;
    }
    for (ti, samples) in model.iter().enumerate() {
        let tid = ti as u32 + 1;
        let n = samples.len() as u32;
        match panicmon::catch(|| mp4.sample_count(tid)) {
            Ok(Ok(c)) => {
                if c != n {
                    push(&mut f, "sample_count", json!({"track": tid, "got": c, "want": n}));
                }
            }
            Ok(Err(e)) => push(&mut f, "sample_count_err", json!({"track": tid, "err": e.to_string()})),
            Err(p) => push(&mut f, "reader_panic", json!({"call": "sample_count", "site": p.site(), "msg": p.msg})),
        }
        let mut start = 0u64;
        for (k, s) in samples.iter().enumerate() {
            let sid = k as u32 + 1;
            match panicmon::catch(|| mp4.read_sample(tid, sid)) {
                Ok(Ok(Some(got))) => {
                    let want_bytes = sample_bytes(s.fill, s.size as usize);
                    if got.bytes.as_ref() != &want_bytes[..] {
                        let pos = got.bytes.iter().zip(want_bytes.iter()).position(|(a, b)| a != b);
                        push(&mut f, "sample_bytes", json!({"track": tid, "sample": sid, "got_len": got.bytes.len(), "want_len": want_bytes.len(), "first_diff": pos}));
                    }
                    if got.duration != s.duration {
                        push(&mut f, "sample_duration", json!({"track": tid, "sample": sid, "got": got.duration, "want": s.duration}));
                    }
                    if got.rendering_offset != s.cts {
                        push(&mut f, "sample_rendering_offset", json!({"track": tid, "sample": sid, "got": got.rendering_offset, "want": s.cts}));
                    }
                    if got.is_sync != s.sync {
                        push(&mut f, "sample_sync", json!({"track": tid, "sample": sid, "got": got.is_sync, "want": s.sync}));
                    }
                    if got.start_time != start {
                        push(&mut f, "sample_start_time", json!({"track": tid, "sample": sid, "got": got.start_time, "want": start}));
                    }
                }
                Ok(Ok(None)) => push(&mut f, "sample_missing", json!({"track": tid, "sample": sid, "of": n})),
                Ok(Err(e)) => push(&mut f, "sample_read_err", json!({"track": tid, "sample": sid, "of": n, "err": e.to_string()})),
                Err(p) => push(&mut f, "reader_panic", json!({"call": "read_sample", "track": tid, "sample": sid, "site": p.site(), "msg": p.msg})),
            }
            start += s.duration as u64;
            if f.len() >= 8 {
                return f;
            }
        }
        // ids past the end (and 0) never yield a sample
        for sid in [0u32, n + 1, n + 2, n.saturating_add(1000), u32::MAX] {
            if sid >= 1 && sid <= n {
                continue;
            }
            match panicmon::catch(|| mp4.read_sample(tid, sid)) {
                Ok(Ok(Some(_))) => push(&mut f, "sample_past_end", json!({"track": tid, "sample": sid, "count": n})),
                Ok(_) => {}
                Err(p) => push(&mut f, "reader_panic", json!({"call": "read_sample", "track": tid, "sample": sid, "site": p.site(), "msg": p.msg})),
            }
        }
    }
    f
}

fn gcd(a: u128, b: u128) -> u128 {
    if b == 0 {
        a
    } else {
        gcd(b, a % b)
    }
}

/// C02 oracle: independent structural decode + table/model consistency.
pub fn check_structure<S: Src + ?Sized>(h: &History, out: &S, origin: u64) -> Fails {
    let mut f = Fails::new();
    let (model, _) = h.model();
    let top = match refdec::parse_range(out, origin, out.len(), None, 0) {
        Ok(t) => t,
        Err(e) => {
            push(&mut f, "box_tree", json!({"err": e}));
            return f;
        }
    };
    let names: Vec<String> = top.iter().map(|n| n.name()).collect();
    if top.first().map(|n| &n.typ) != Some(b"ftyp") {
        push(&mut f, "ftyp_first", json!({"top": names}));
    }
    let n_ftyp = top.iter().filter(|n| &n.typ == b"ftyp").count();
    let n_moov = top.iter().filter(|n| &n.typ == b"moov").count();
    let n_mdat = top.iter().filter(|n| &n.typ == b"mdat").count();
    if n_ftyp != 1 || n_moov != 1 || n_mdat != 1 {
        push(&mut f, "top_level_boxes", json!({"top": names}));
        return f;
    }
    for n in &top {
        if n.to_end {
            push(&mut f, "size_zero_box", json!({"box": n.name()}));
        }
    }
    let mdat = top.iter().find(|n| &n.typ == b"mdat").unwrap();
    // the 64-bit size form must be used exactly when needed
    if (mdat.size > u32::MAX as u64) != (mdat.hdr == 16) {
        push(&mut f, "mdat_header_form", json!({"size": mdat.size, "hdr": mdat.hdr}));
    }
    let mdat_lo = mdat.payload_start();
    let mdat_hi = mdat.end();
    let movie = match refdec::dec_movie(out, &top) {
        Ok(m) => m,
        Err(e) => {
            push(&mut f, "movie_decode", json!({"err": e}));
            return f;
        }
    };
    if movie.tracks.len() != model.len() {
        push(&mut f, "track_count", json!({"got": movie.tracks.len(), "want": model.len()}));
        return f;
    }
    if movie.mvhd.timescale != h.timescale {
        push(&mut f, "mvhd_timescale", json!({"got": movie.mvhd.timescale, "want": h.timescale}));
    }
    let specs = h.tracks();
    let mut all_chunks: Vec<(u64, u64, u32, u32)> = Vec::new(); // lo, hi, track, chunk
    let mut max_tkhd = 0u64;
    for (ti, t) in movie.tracks.iter().enumerate() {
        let tid = ti as u32 + 1;
        let want = &model[ti];
        let spec = specs[ti];
        if t.tkhd.track_id != tid {
            push(&mut f, "tkhd_track_id", json!({"pos": ti, "got": t.tkhd.track_id}));
        }
        if t.mdhd.timescale != spec.timescale {
            push(&mut f, "mdhd_timescale", json!({"track": tid, "got": t.mdhd.timescale, "want": spec.timescale}));
        }
        let st = &t.stbl;
        if st.stsd_count != 1 {
            push(&mut f, "stsd_count", json!({"track": tid, "got": st.stsd_count}));
        }
        if st.stsz_count as usize != want.len() {
            push(&mut f, "stsz_count", json!({"track": tid, "got": st.stsz_count, "want": want.len()}));
            continue;
        }
        let samples = match st.samples() {
            Ok(s) => s,
            Err(e) => {
                push(&mut f, "tables_inconsistent", json!({"track": tid, "err": e, "n": want.len(),
                    "stsc": format!("{:?}", st.stsc), "chunks": st.chunk_offsets.len()}));
                continue;
            }
        };
        if want.iter().any(|s| s.cts != 0) && st.ctts.is_none() {
            push(&mut f, "ctts_missing", json!({"track": tid}));
        }
        if want.iter().any(|s| !s.sync) && st.stss.is_none() {
            push(&mut f, "stss_missing", json!({"track": tid}));
        }
        if !st.is_co64 && st.chunk_offsets.iter().any(|o| *o > u32::MAX as u64) {
            push(&mut f, "stco_overflow", json!({"track": tid}));
        }
        let mut sum = 0u128;
        for (k, (got, w)) in samples.iter().zip(want.iter()).enumerate() {
            if got.size != w.size {
                push(&mut f, "stsz_entry", json!({"track": tid, "sample": k + 1, "got": got.size, "want": w.size}));
            }
            if got.delta != w.duration {
                push(&mut f, "stts_entry", json!({"track": tid, "sample": k + 1, "got": got.delta, "want": w.duration}));
            }
            if got.cts != w.cts {
                push(&mut f, "ctts_entry", json!({"track": tid, "sample": k + 1, "got": got.cts, "want": w.cts}));
            }
            if got.sync != w.sync {
                push(&mut f, "stss_entry", json!({"track": tid, "sample": k + 1, "got": got.sync, "want": w.sync}));
            }
            // bytes at the computed position
            if got.size == w.size {
                let lo = got.offset;
                let hi = lo + got.size as u64;
                if lo < mdat_lo || hi > mdat_hi {
                    push(&mut f, "sample_outside_mdat", json!({"track": tid, "sample": k + 1, "offset": lo, "size": got.size, "mdat": [mdat_lo, mdat_hi]}));
                } else if (w.size as usize) < SYN_MIN {
                    let b = out.read_at(lo, w.size as usize);
                    if b != sample_bytes(w.fill, w.size as usize) {
                        push(&mut f, "sample_bytes_at_offset", json!({"track": tid, "sample": k + 1, "offset": lo}));
                    }
                } else {
                    // large samples: spot-check head, tail and a few interior bytes
                    for p in [0u64, 1, 15, 16, 17, (w.size as u64) / 2, w.size as u64 - 1] {
                        let b = out.read_at(lo + p, 1);
                        if b.first().copied() != Some(sample_byte_at(w.fill, w.size as usize, p)) {
                            push(&mut f, "sample_bytes_at_offset", json!({"track": tid, "sample": k + 1, "offset": lo, "pos": p}));
                            break;
                        }
                    }
                }
            }
            sum += w.duration as u128;
            if f.len() >= 8 {
                return f;
            }
        }
        // chunks: extent of every chunk
        let mut k = 0usize;
        while k < samples.len() {
            let c = samples[k].chunk;
            let lo = samples[k].offset;
            let mut hi = lo;
            while k < samples.len() && samples[k].chunk == c {
                hi += samples[k].size as u64;
                k += 1;
            }
            if lo < mdat_lo || hi > mdat_hi {
                push(&mut f, "chunk_outside_mdat", json!({"track": tid, "chunk": c, "range": [lo, hi], "mdat": [mdat_lo, mdat_hi]}));
            }
            if hi > lo {
                all_chunks.push((lo, hi, tid, c));
            }
        }
        // durations
        if t.mdhd.duration as u128 != sum {
            push(&mut f, "mdhd_duration", json!({"track": tid, "got": t.mdhd.duration, "want": sum.to_string()}));
        }
        if (t.mdhd.duration > u32::MAX as u64) != (t.mdhd.version == 1) && t.mdhd.version == 0 {
            push(&mut f, "mdhd_version", json!({"track": tid, "duration": t.mdhd.duration, "version": t.mdhd.version}));
        }
        // track header duration = sum converted to the movie timescale, within one tick
        let num = sum * h.timescale as u128;
        let den = spec.timescale as u128;
        if den != 0 {
            let lo = num / den;
            let hi = (num + den - 1) / den;
            if hi <= u64::MAX as u128 {
                let got = t.tkhd.duration as u128;
                if got + 1 < lo || got > hi + 1 {
                    push(&mut f, "tkhd_duration", json!({"track": tid, "got": t.tkhd.duration, "want_floor": lo.to_string(), "sum": sum.to_string(), "movie_ts": h.timescale, "track_ts": spec.timescale}));
                }
                if t.tkhd.duration > u32::MAX as u64 && t.tkhd.version != 1 {
                    push(&mut f, "tkhd_version", json!({"track": tid, "duration": t.tkhd.duration}));
                }
            }
        }
        max_tkhd = max_tkhd.max(t.tkhd.duration);
    }
    // movie duration = longest track
    if !movie.tracks.is_empty() {
        if movie.mvhd.duration != max_tkhd {
            push(&mut f, "mvhd_duration", json!({"got": movie.mvhd.duration, "want_max_tkhd": max_tkhd}));
        }
        if movie.mvhd.duration > u32::MAX as u64 && movie.mvhd.version != 1 {
            push(&mut f, "mvhd_version", json!({"duration": movie.mvhd.duration}));
        }
    }
    // pairwise disjoint chunks
    all_chunks.sort();
    for w in all_chunks.windows(2) {
        if w[1].0 < w[0].1 {
            push(&mut f, "chunks_overlap", json!({"a": [w[0].0, w[0].1, w[0].2, w[0].3], "b": [w[1].0, w[1].1, w[1].2, w[1].3]}));
            break;
        }
    }
    let _ = gcd;
    f
}

/// C14 oracle: configuration survives mux -> demux (reader accessors vs. the configuration).
pub fn check_config<R: Read + Seek>(h: &History, reader: R, len: u64) -> Fails {
    let mut f = Fails::new();
    let (model, _) = h.model();
    let mp4 = match panicmon::catch(|| Mp4Reader::read_header(reader, len)) {
        Err(p) => {
            push(&mut f, "reader_panic", json!({"site": p.site(), "msg": p.msg}));
            return f;
        }
        Ok(Err(e)) => {
            push(&mut f, "reader_open_error", json!({"err": e.to_string()}));
            return f;
        }
        Ok(Ok(m)) => m,
    };
    if mp4.major_brand().value != h.major {
        push(&mut f, "major_brand", json!({"got": mp4.major_brand().value, "want": h.major}));
    }
    if mp4.minor_version() != h.minor {
        push(&mut f, "minor_version", json!({"got": mp4.minor_version(), "want": h.minor}));
    }
    let got_brands: Vec<[u8; 4]> = mp4.compatible_brands().iter().map(|b| b.value).collect();
    if got_brands != h.brands {
        push(&mut f, "compatible_brands", json!({"got": got_brands, "want": h.brands}));
    }
    if mp4.timescale() != h.timescale {
        push(&mut f, "movie_timescale", json!({"got": mp4.timescale(), "want": h.timescale}));
    }
    let specs = h.tracks();
    let mut longest_ms_lo = 0u128;
    let mut longest_ms_hi = 0u128;
    for (ti, spec) in specs.iter().enumerate() {
        let tid = ti as u32 + 1;
        let t = match mp4.tracks().get(&tid) {
            Some(t) => t,
            None => {
                push(&mut f, "track_missing", json!({"track": tid}));
                continue;
            }
        };
        let r = panicmon::catch(|| {
            let mut f = Fails::new();
            let want_type = track_type(spec.kind);
            match t.track_type() {
                Ok(tt) if tt == want_type => {}
                other => push(&mut f, "track_type", json!({"track": tid, "got": format!("{:?}", other), "want": format!("{:?}", want_type)})),
            }
            let (want_media, want_box): (MediaType, &[u8; 4]) = match &spec.media {
                Media::Avc { .. } => (MediaType::H264, b"avc1"),
                Media::Hevc { .. } => (MediaType::H265, b"hev1"),
                Media::Vp9 { .. } => (MediaType::VP9, b"vp09"),
                Media::Aac { .. } => (MediaType::AAC, b"mp4a"),
                Media::Ttxt => (MediaType::TTXT, b"tx3g"),
            };
            match t.media_type() {
                Ok(m) if m == want_media => {}
                other => push(&mut f, "media_type", json!({"track": tid, "got": format!("{:?}", other), "want": format!("{:?}", want_media)})),
            }
            match t.box_type() {
                Ok(b) if &b.value == want_box => {}
                other => push(&mut f, "box_type", json!({"track": tid, "got": format!("{:?}", other)})),
            }
            if t.track_id() != tid {
                push(&mut f, "track_id", json!({"track": tid, "got": t.track_id()}));
            }
            if t.language() != spec.language {
                push(&mut f, "language", json!({"track": tid, "got": t.language(), "want": spec.language}));
            }
            if t.timescale() != spec.timescale {
                push(&mut f, "timescale", json!({"track": tid, "got": t.timescale(), "want": spec.timescale}));
            }
            match &spec.media {
                Media::Avc { w, h, sps, pps } => {
                    if t.width() != *w || t.height() != *h {
                        push(&mut f, "dimensions", json!({"track": tid, "got": [t.width(), t.height()], "want": [w, h]}));
                    }
                    match t.sequence_parameter_set() {
                        Ok(s) if s == &sps[..] => {}
                        other => push(&mut f, "sps", json!({"track": tid, "got": format!("{:?}", other.map(|s| s.len()))})),
                    }
                    match t.picture_parameter_set() {
                        Ok(s) if s == &pps[..] => {}
                        other => push(&mut f, "pps", json!({"track": tid, "got": format!("{:?}", other.map(|s| s.len()))})),
                    }
                    if let Some(avc1) = &t.trak.mdia.minf.stbl.stsd.avc1 {
                        let a = &avc1.avcc;
                        if a.avc_profile_indication != sps[1] || a.profile_compatibility != sps[2] || a.avc_level_indication != sps[3] {
                            push(&mut f, "avc_profile_level_bytes", json!({"track": tid, "got": [a.avc_profile_indication, a.profile_compatibility, a.avc_level_indication], "want": [sps[1], sps[2], sps[3]]}));
                        }
                    }
                    let want_p = AvcProfile::try_from((sps[1], sps[2])).ok();
                    let got_p = t.video_profile().ok();
                    if want_p != got_p {
                        push(&mut f, "video_profile", json!({"track": tid, "got": format!("{:?}", got_p), "want": format!("{:?}", want_p)}));
                    }
                }
                Media::Hevc { w, h } | Media::Vp9 { w, h } => {
                    if t.width() != *w || t.height() != *h {
                        push(&mut f, "dimensions", json!({"track": tid, "got": [t.width(), t.height()], "want": [w, h]}));
                    }
                }
                Media::Aac { bitrate, profile, freq, chan } => {
                    let gp = t.audio_profile().ok().map(|p| p as u8);
                    if gp != Some(*profile) {
                        push(&mut f, "audio_profile", json!({"track": tid, "got": gp, "want": profile}));
                    }
                    let gf = t.sample_freq_index().ok().map(|p| p as u8);
                    if gf != Some(*freq) {
                        push(&mut f, "sample_freq_index", json!({"track": tid, "got": gf, "want": freq}));
                    }
                    let gc = t.channel_config().ok().map(|p| p as u8);
                    if gc != Some(*chan) {
                        push(&mut f, "channel_config", json!({"track": tid, "got": gc, "want": chan}));
                    }
                    if t.bitrate() != *bitrate {
                        push(&mut f, "bitrate", json!({"track": tid, "got": t.bitrate(), "want": bitrate}));
                    }
                }
                Media::Ttxt => {}
            }
            // duration in microseconds (from the media header), within one unit + one tick
            let sum: u128 = model[ti].iter().map(|s| s.duration as u128).sum();
            let ts = spec.timescale as u128;
            let us_lo = sum * 1_000_000 / ts;
            let tick_us = (1_000_000 + ts - 1) / ts;
            let got = t.duration().as_micros();
            if got + 1 + tick_us < us_lo || got > us_lo + 1 + tick_us {
                push(&mut f, "track_duration", json!({"track": tid, "got_us": got.to_string(), "want_us": us_lo.to_string()}));
            }
            f
        });
        match r {
            Ok(ff) => {
                for x in ff {
                    push(&mut f, &x.0, x.1);
                }
            }
            Err(p) => push(&mut f, "reader_panic", json!({"track": tid, "site": p.site(), "msg": p.msg})),
        }
        let sum: u128 = model[ti].iter().map(|s| s.duration as u128).sum();
        let ts = spec.timescale as u128;
        let lo = sum * 1000 / ts;
        let hi = (sum * 1000 + ts - 1) / ts;
        longest_ms_lo = longest_ms_lo.max(lo);
        longest_ms_hi = longest_ms_hi.max(hi);
    }
    // movie duration in milliseconds: longest track, within one unit + one movie tick
    if !specs.is_empty() {
        match panicmon::catch(|| mp4.duration()) {
            Ok(d) => {
                let got = d.as_millis();
                let tick_ms = (1000 + h.timescale as u128 - 1) / h.timescale.max(1) as u128;
                if got + 1 + tick_ms < longest_ms_lo || got > longest_ms_hi + 1 + tick_ms {
                    push(&mut f, "movie_duration", json!({"got_ms": got.to_string(), "want_ms": longest_ms_lo.to_string()}));
                }
            }
            Err(p) => push(&mut f, "reader_panic", json!({"call": "duration", "site": p.site(), "msg": p.msg})),
        }
    }
    f
}

// ---------------------------------------------------------------------------------------
// generators
// ---------------------------------------------------------------------------------------

pub fn gen_sps(rng: &mut Rng, len: usize) -> Vec<u8> {
    let mut v = rng.bytes(len);
    if len >= 4 {
        v[0] = 0x67;
        // profile_idc: mostly the ones the library names, sometimes arbitrary
        v[1] = match rng.below(6) {
            0 => 66,
            1 => 77,
            2 => 88,
            3 => 100,
            _ => rng.next_u32() as u8,
        };
        annex_b(rng, &mut v, 0x67);
    }
    v
}

/// One parameter set in six comes the way encoders hand it out: with an Annex B start code
/// (00 00 00 01 or 00 00 01) in front of the NAL header byte, cut to the requested length (so
/// the 4..7-byte ones are little more than the start code). To the muxer and the file format
/// parameter sets are opaque bytes; they must come back exactly as configured.
pub fn annex_b(rng: &mut Rng, v: &mut Vec<u8>, nal_header: u8) {
    if !rng.chance(1, 6) {
        return;
    }
    let len = v.len();
    let mut p: Vec<u8> = if rng.bool() { vec![0, 0, 0, 1] } else { vec![0, 0, 1] };
    p.push(nal_header);
    p.extend_from_slice(&v[1.min(len)..]);
    p.truncate(len);
    *v = p;
}

pub fn gen_pps(rng: &mut Rng, len: usize) -> Vec<u8> {
    let mut v = rng.bytes(len);
    if len >= 4 {
        v[0] = 0x68;
        annex_b(rng, &mut v, 0x68);
    }
    v
}

pub fn valid_aots() -> Vec<u8> {
    (1u8..=46).filter(|v| matches!(v, 1..=9 | 12..=17 | 19..=30 | 32..=46)).collect()
}

pub fn gen_language(rng: &mut Rng) -> String {
    match rng.below(6) {
        0 => "und".to_string(),
        1 => "eng".to_string(),
        2 => "zzz".to_string(),
        3 => "aaa".to_string(),
        _ => {
            let mut s = String::new();
            for _ in 0..3 {
                s.push((b'a' + rng.below(26) as u8) as char);
            }
            s
        }
    }
}

pub fn gen_timescale(rng: &mut Rng) -> u32 {
    match rng.below(10) {
        0 => 1,
        1 => 1000,
        2 => 90000,
        3 => 48000,
        4 => u32::MAX,
        5 => 2,
        6 => 1 + rng.below(100) as u32,
        7 => 1 + rng.below(100_000) as u32,
        _ => (rng.biased_u32()).max(1),
    }
}

/// A track configuration in the documented domain. `aot_max`: restrict AAC object types
/// (the generator stays outside the known-finding region K1 unless told otherwise).
pub fn gen_track(rng: &mut Rng, allow_high_aot: bool) -> TrackSpec {
    let media = match rng.below(5) {
        0 => {
            // lengths over the whole accepted domain 4..=65535, both edges included
            let sl = *rng.pick(&[4usize, 4, 5, 8, 16, 31, 64, 255, 256, 1024, 4096, 65533, 65534, 65535]);
            let pl = *rng.pick(&[4usize, 4, 5, 6, 8, 32, 300, 4096, 65533, 65534, 65535]);
            Media::Avc { w: rng.biased_u16(), h: rng.biased_u16(), sps: gen_sps(rng, sl), pps: gen_pps(rng, pl) }
        }
        1 => Media::Hevc { w: rng.biased_u16(), h: rng.biased_u16() },
        2 => Media::Vp9 { w: rng.biased_u16(), h: rng.biased_u16() },
        3 => {
            let aots = valid_aots();
            let mut p = *rng.pick(&aots);
            if !allow_high_aot {
                while p >= 32 {
                    p = *rng.pick(&aots);
                }
            }
            Media::Aac { bitrate: rng.biased_u32(), profile: p, freq: rng.below(13) as u8, chan: 1 + rng.below(7) as u8 }
        }
        _ => Media::Ttxt,
    };
    // track kind normally matches the codec, sometimes deliberately not (the API allows it)
    let natural = match media {
        Media::Avc { .. } | Media::Hevc { .. } | Media::Vp9 { .. } => 0,
        Media::Aac { .. } => 1,
        Media::Ttxt => 2,
    };
    let kind = if rng.chance(1, 8) { rng.below(3) as u8 } else { natural };
    TrackSpec { kind, timescale: gen_timescale(rng), language: gen_language(rng), media }
}

#[derive(Clone, Copy, Debug, PartialEq, Eq)]
pub enum SizeMode {
    AllZero,
    Constant,
    ConstantThenVary,
    Varying,
    WithZeros,
}

pub struct TrackPlan {
    pub size_mode: SizeMode,
    pub base_size: u32,
    pub switch_at: u32,
    pub dur_mode: u8,
    pub base_dur: u32,
    pub cts_mode: u8,
    pub cts_start: u32,
    pub sync_mode: u8,
    pub sync_period: u32,
    pub count: u32,
    pub timescale: u32,
}

pub fn gen_plan(rng: &mut Rng, timescale: u32, max_samples: u32, max_size: u32) -> TrackPlan {
    let count = match rng.below(8) {
        0 => 0,
        1 => 1,
        2 => 2,
        3 => 3,
        _ => rng.below(max_samples as u64 + 1) as u32,
    };
    let size_mode = *rng.pick(&[
        SizeMode::AllZero,
        SizeMode::Constant,
        SizeMode::ConstantThenVary,
        SizeMode::ConstantThenVary,
        SizeMode::Varying,
        SizeMode::Varying,
        SizeMode::WithZeros,
        SizeMode::WithZeros,
    ]);
    let base_size = match rng.below(6) {
        0 => 1,
        1 => 2,
        2 => 1 + rng.below(16) as u32,
        3 => 1 + rng.below(256) as u32,
        _ => 1 + rng.below(max_size as u64) as u32,
    };
    TrackPlan {
        size_mode,
        base_size,
        switch_at: 1 + rng.below(count.max(1) as u64) as u32,
        dur_mode: rng.below(7) as u8,
        base_dur: match rng.below(6) {
            0 => 0,
            1 => 1,
            2 => timescale,
            3 => timescale.saturating_sub(1),
            4 => (timescale / 3).max(1),
            _ => rng.biased_u32() >> rng.below(24),
        },
        cts_mode: rng.below(6) as u8,
        cts_start: 1 + rng.below(count.max(1) as u64) as u32,
        sync_mode: rng.below(6) as u8,
        sync_period: 1 + rng.below(12) as u32,
        count,
        timescale,
    }
}

impl TrackPlan {
    pub fn sample(&self, rng: &mut Rng, k: u32) -> SampleSpec {
        // k is 1-based
        let size = match self.size_mode {
            SizeMode::AllZero => 0,
            SizeMode::Constant => self.base_size,
            SizeMode::ConstantThenVary => {
                if k < self.switch_at {
                    self.base_size
                } else if k == self.switch_at {
                    self.base_size + 1
                } else {
                    1 + rng.below(self.base_size as u64 * 2) as u32
                }
            }
            SizeMode::Varying => rng.below(self.base_size as u64 * 2 + 1) as u32,
            SizeMode::WithZeros => {
                if rng.chance(1, 3) {
                    0
                } else {
                    self.base_size
                }
            }
        };
        let duration = match self.dur_mode {
            0 => self.base_dur,
            1 => {
                if rng.chance(1, 4) {
                    self.base_dur.wrapping_add(1)
                } else {
                    self.base_dur
                }
            }
            2 => rng.below(self.timescale as u64 + 1) as u32,
            3 => *rng.pick(&[0u32, 1, self.timescale, self.timescale.saturating_sub(1), self.timescale / 2]),
            4 => rng.biased_u32(),
            5 => {
                if rng.chance(1, 10) {
                    u32::MAX
                } else {
                    self.base_dur
                }
            }
            _ => self.base_dur / 2 + rng.below(self.base_dur as u64 / 2 + 1) as u32,
        };
        let cts = match self.cts_mode {
            0 | 1 => 0,
            2 => {
                if k >= self.cts_start {
                    *rng.pick(&[0i32, 1, -1, 5, -5, 1000])
                } else {
                    0
                }
            }
            3 => rng.biased_i32(),
            4 => {
                if k == self.cts_start {
                    *rng.pick(&[i32::MIN, i32::MAX, 1, -1])
                } else {
                    0
                }
            }
            _ => (k % 3) as i32 * 100,
        };
        let sync = match self.sync_mode {
            0 => true,
            1 => false,
            2 => k % self.sync_period == 1 || self.sync_period == 1,
            3 => rng.bool(),
            4 => k >= self.cts_start && rng.bool(),
            _ => k == 1,
        };
        SampleSpec { size, fill: rng.next_u64(), duration, cts, sync }
    }
}

pub fn gen_brand(rng: &mut Rng) -> [u8; 4] {
    match rng.below(6) {
        0 => *b"isom",
        1 => *b"mp42",
        2 => *b"avc1",
        3 => {
            let b = rng.bytes(4);
            [b[0], b[1], b[2], b[3]]
        }
        4 => [0, 0, 0, 0],
        _ => {
            let mut x = [0u8; 4];
            for c in x.iter_mut() {
                *c = b' ' + rng.below(95) as u8;
            }
            x
        }
    }
}

/// Random history in the documented domain (C01 / C02 / C14).
pub fn gen_history(rng: &mut Rng, max_tracks: u32, max_samples: u32, max_size: u32, allow_high_aot: bool) -> History {
    let ntracks = 1 + rng.below(max_tracks as u64) as u32;
    let nbrands = rng.below(6) as usize;
    let mut h = History {
        major: gen_brand(rng),
        minor: rng.biased_u32(),
        brands: (0..nbrands).map(|_| gen_brand(rng)).collect(),
        timescale: gen_timescale(rng),
        ops: Vec::new(),
    };
    let specs: Vec<TrackSpec> = (0..ntracks).map(|_| gen_track(rng, allow_high_aot)).collect();
    let plans: Vec<TrackPlan> = specs.iter().map(|s| gen_plan(rng, s.timescale, max_samples, max_size)).collect();
    // when is each track added: all up front, or lazily in the middle of the writes
    let lazy_add = rng.chance(1, 3);
    let mut added = 0u32;
    let mut written = vec![0u32; ntracks as usize];
    let interleave = rng.below(4);
    let with_rejects = rng.chance(1, 2);
    if !lazy_add {
        for s in &specs {
            h.ops.push(Op::Add(s.clone()));
            added += 1;
        }
    } else {
        h.ops.push(Op::Add(specs[0].clone()));
        added = 1;
    }
    let mut burst_left = 0u32;
    let mut cur = 0usize;
    loop {
        // add pending tracks lazily
        if added < ntracks && rng.chance(1, 4) {
            h.ops.push(Op::Add(specs[added as usize].clone()));
            added += 1;
        }
        if with_rejects && rng.chance(1, 30) {
            // an add_track the muxer must reject: it must not consume a track id
            let mut bad = gen_track(rng, false);
            match rng.below(3) {
                0 => bad.timescale = 0,
                1 => bad.media = Media::Avc { w: 16, h: 16, sps: vec![0x67; rng.usize_below(4)], pps: vec![0x68, 1, 2, 3] },
                _ => bad.media = Media::Avc { w: 16, h: 16, sps: vec![0x67, 66, 0, 30], pps: vec![0x68; 65536] },
            }
            h.ops.push(Op::Add(bad));
        }
        if with_rejects && rng.chance(1, 12) {
            // a call the muxer must reject
            let bad = *rng.pick(&[0u32, added + 1, added + 2, u32::MAX, 1000]);
            let mut dummy = TrackPlan { ..gen_plan(rng, 1000, 4, 64) };
            dummy.count = 1;
            let s = dummy.sample(rng, 1);
            h.ops.push(Op::Write { track_id: bad, s });
        }
        let remaining: Vec<usize> = (0..added as usize).filter(|t| written[*t] < plans[*t].count).collect();
        if remaining.is_empty() {
            if added < ntracks {
                h.ops.push(Op::Add(specs[added as usize].clone()));
                added += 1;
                continue;
            }
            break;
        }
        let t = match interleave {
            0 => remaining[rng.usize_below(remaining.len())],
            1 => remaining[0], // one track first
            2 => {
                // round robin
                cur = (cur + 1) % added as usize;
                let mut t = cur;
                while !remaining.contains(&t) {
                    t = (t + 1) % added as usize;
                }
                t
            }
            _ => {
                // bursts
                if burst_left == 0 || !remaining.contains(&cur) {
                    cur = remaining[rng.usize_below(remaining.len())];
                    burst_left = 1 + rng.below(10) as u32;
                }
                burst_left -= 1;
                cur
            }
        };
        written[t] += 1;
        let s = plans[t].sample(rng, written[t]);
        h.ops.push(Op::Write { track_id: t as u32 + 1, s });
    }
    h.ops.push(Op::End);
    h
}

/// Does the history stay inside what the file format can represent at all (durations that
/// fit the 64-bit header fields after conversion)? Histories outside are C17 territory.
pub fn representable(h: &History) -> bool {
    let (model, _) = h.model();
    for (t, spec) in model.iter().zip(h.tracks()) {
        let sum: u128 = t.iter().map(|s| s.duration as u128).sum();
        if spec.timescale == 0 {
            return false;
        }
        if sum * h.timescale as u128 / spec.timescale as u128 >= (1u128 << 63) {
            return false;
        }
    }
    true
}

/// Abstract shape of a history for coverage fingerprints.
pub fn shape(h: &History) -> String {
    let (model, rej) = h.model();
    let mut s = String::new();
    for (t, spec) in model.iter().zip(h.tracks()) {
        let n = t.len();
        let sizes: std::collections::BTreeSet<u32> = t.iter().map(|x| x.size).collect();
        let zero = t.iter().filter(|x| x.size == 0).count();
        let cts_first = t.iter().position(|x| x.cts != 0);
        let sync_first = t.iter().position(|x| x.sync);
        let nsync = t.iter().filter(|x| x.sync).count();
        let mut flushes = 0;
        let mut acc = 0u64;
        for x in t {
            acc += x.duration as u64;
            if acc >= spec.timescale as u64 {
                flushes += 1;
                acc = 0;
            }
        }
        let bucket = |v: usize| match v {
            0 => 0,
            1 => 1,
            2 => 2,
            3..=5 => 3,
            6..=20 => 4,
            _ => 5,
        };
        s.push_str(&format!(
            "[{} n{} sz{} z{} c{:?} s{:?}/{} f{} tail{}]",
            spec.media.name(),
            bucket(n),
            bucket(sizes.len()),
            bucket(zero),
            cts_first.map(bucket),
            sync_first.map(bucket),
            if nsync == n { 2 } else if nsync == 0 { 0 } else { 1 },
            bucket(flushes),
            (acc > 0) as u8
        ));
    }
    s.push_str(&format!("r{}", rej.len().min(3)));
    s
}

// ---------------------------------------------------------------------------------------
// degenerate domain (C17)
// ---------------------------------------------------------------------------------------

pub fn weird_language(rng: &mut Rng) -> String {
    // a third of the time: characters whose lower- or upper-case form has a different UTF-8
    // length or a different number of characters (Kelvin sign, Ohm sign, dotted capital I,
    // capital sharp s, ligatures, titlecase digraphs) - alone, inside or at the end of a
    // three-character code: anything that normalises case and then slices trips over them
    if rng.chance(1, 3) {
        let special = ["\u{212a}", "\u{2126}", "\u{212b}", "\u{130}", "\u{23a}", "\u{23e}", "\u{1e9e}", "\u{df}", "\u{fb01}", "\u{1c5}", "\u{149}", "\u{3a3}"];
        let c = *rng.pick(&special);
        return match rng.below(5) {
            0 => c.to_string(),
            1 => format!("{}m", c),
            2 => format!("a{}", c),
            3 => format!("a{}{}x", c, '\u{e9}'),
            _ => format!("ab{}", c),
        };
    }
    match rng.below(12) {
        0 => String::new(),
        1 => "a".into(),
        2 => "ab".into(),
        3 => "abcd".into(),
        4 => "ENG".into(),
        5 => "\u{65e5}\u{672c}\u{8a9e}".into(),
        6 => "\u{e9}".into(),
        7 => "a\0b".into(),
        8 => "x".repeat(1000),
        9 => "\u{1F600}\u{1F600}".into(),
        10 => "   ".into(),
        _ => "~~~".into(),
    }
}

/// Perturb a documented-domain history into the degenerate domain. Returns the list of
/// degenerate-argument classes applied (for coverage accounting).
pub fn degenerate(rng: &mut Rng, h: &mut History, allow_huge: bool) -> Vec<&'static str> {
    let mut classes = Vec::new();
    let n = 1 + rng.below(3);
    for _ in 0..n {
        match rng.below(14) {
            0 => {
                h.timescale = 0;
                classes.push("movie_timescale_0");
            }
            1 => {
                for op in h.ops.iter_mut() {
                    if let Op::Add(t) = op {
                        if rng.bool() {
                            t.timescale = 0;
                        }
                    }
                }
                classes.push("track_timescale_0");
            }
            2 => {
                for op in h.ops.iter_mut() {
                    if let Op::Add(t) = op {
                        t.language = weird_language(rng);
                    }
                }
                classes.push("language_weird");
            }
            3 => {
                let sl = *rng.pick(&[0usize, 1, 2, 3, 4, 65535, 65536, 70000]);
                let pl = *rng.pick(&[0usize, 1, 3, 4, 65535, 65536, 100000]);
                let sps = gen_sps(rng, sl);
                let pps = gen_pps(rng, pl);
                let pos = rng.usize_below(h.ops.len().max(1));
                h.ops.insert(pos.min(h.ops.len()), Op::Add(TrackSpec {
                    kind: 0,
                    timescale: 1000,
                    language: "und".into(),
                    media: Media::Avc { w: 1, h: 1, sps, pps },
                }));
                classes.push("param_set_length");
            }
            4 => {
                for op in h.ops.iter_mut() {
                    if let Op::Write { s, .. } = op {
                        s.duration = u32::MAX;
                    }
                }
                classes.push("durations_max");
            }
            5 => {
                for op in h.ops.iter_mut() {
                    if let Op::Write { s, .. } = op {
                        s.cts = *rng.pick(&[i32::MIN, i32::MAX, -1]);
                    }
                }
                classes.push("cts_extreme");
            }
            6 => {
                if allow_huge {
                    // one very large sample, preferably on an AAC track
                    let tracks = h.tracks().len() as u32;
                    let aac: Vec<u32> = h
                        .tracks()
                        .iter()
                        .enumerate()
                        .filter(|(_, t)| matches!(t.media, Media::Aac { .. }))
                        .map(|(i, _)| i as u32 + 1)
                        .collect();
                    if tracks > 0 {
                        let tid = if !aac.is_empty() { *rng.pick(&aac) } else { 1 + rng.below(tracks as u64) as u32 };
                        let size = *rng.pick(&[(1u32 << 24) - 1, 1 << 24, (1 << 24) + 1, 20 << 20]);
                        let pos = h.ops.len().saturating_sub(1);
                        h.ops.insert(pos, Op::Write { track_id: tid, s: SampleSpec { size, fill: rng.next_u64(), duration: 1, cts: 0, sync: true } });
                        classes.push("huge_sample");
                    }
                }
            }
            7 => {
                h.ops.push(Op::End);
                classes.push("end_twice");
            }
            8 => {
                // writes after write_end, optionally finished again
                let tracks = h.tracks().len() as u32;
                if tracks > 0 {
                    for _ in 0..1 + rng.below(3) {
                        h.ops.push(Op::Write {
                            track_id: 1 + rng.below(tracks as u64) as u32,
                            s: SampleSpec { size: rng.below(40) as u32, fill: rng.next_u64(), duration: rng.below(5000) as u32, cts: 0, sync: rng.bool() },
                        });
                    }
                    if rng.bool() {
                        h.ops.push(Op::End);
                    }
                    classes.push("write_after_end");
                }
            }
            9 => {
                h.ops.push(Op::Add(gen_track(rng, true)));
                if rng.bool() {
                    h.ops.push(Op::End);
                }
                classes.push("add_after_end");
            }
            10 => {
                // no tracks at all
                h.ops.retain(|o| !matches!(o, Op::Add(_)));
                classes.push("no_tracks");
            }
            11 => {
                for op in h.ops.iter_mut() {
                    if let Op::Write { track_id, .. } = op {
                        if rng.chance(1, 3) {
                            *track_id = *rng.pick(&[0u32, u32::MAX, 77, 1 << 31]);
                        }
                    }
                }
                classes.push("unknown_track_ids");
            }
            12 => {
                // drop the final write_end
                if matches!(h.ops.last(), Some(Op::End)) {
                    h.ops.pop();
                }
                classes.push("no_end");
            }
            _ => {
                for op in h.ops.iter_mut() {
                    if let Op::Add(t) = op {
                        if let Media::Avc { w, h, .. } | Media::Hevc { w, h } | Media::Vp9 { w, h } = &mut t.media {
                            *w = *rng.pick(&[0u16, 65535]);
                            *h = *rng.pick(&[0u16, 65535]);
                        }
                    }
                }
                classes.push("dimension_extremes");
            }
        }
    }
    classes
}

/// The history made of exactly the calls that returned Ok (the model for C17's
/// "when every call succeeds the output satisfies the other muxer properties" is built
/// from what the muxer accepted). Track ids are those the API handed out (position among
/// the successful add_track calls).
pub fn effective_history(h: &History, calls: &[CallRes]) -> History {
    let mut e = History { major: h.major, minor: h.minor, brands: h.brands.clone(), timescale: h.timescale, ops: Vec::new() };
    for (op, res) in h.ops.iter().zip(calls.iter()) {
        if res.is_ok() {
            e.ops.push(op.clone());
        }
    }
    e
}
