//! Physical layout transformations on box trees (C12): inserted free/unknown boxes, sibling
//! permutations, 64-bit headers, spare trailing bytes.

use crate::prng::Rng;
use crate::refenc::*;

#[derive(Debug, Clone, PartialEq, Eq)]
pub enum Xf {
    /// insert a box at top level before index `pos`
    InsertTop { pos: usize, typ: [u8; 4], len: usize, large: bool },
    /// insert a child box into the container at `path` at child slot `slot`
    InsertChild { path: String, slot: usize, typ: [u8; 4], len: usize, large: bool },
    /// permute the children of the container at `path` (relative order of same-type siblings kept)
    Permute { path: String, seed: u64 },
    /// give the box at `path` a 64-bit size header
    Large { path: String },
    /// append spare bytes after the last field of the box at `path`
    Spare { path: String, n: usize },
    /// spare bytes on the box at `path`, AND the box moved to the end of the file: at every level
    /// whose sibling order carries no meaning the box on the path becomes the last child (never
    /// past a sibling of its own type), at top level the box holding it becomes the last box.
    /// A reader that looks even one byte beyond a box only gets away with it while something follows.
    SpareAtEnd { path: String, n: usize },
}

impl Xf {
    pub fn kind(&self) -> &'static str {
        match self {
            Xf::InsertTop { .. } => "insert_top",
            Xf::InsertChild { .. } => "insert_child",
            Xf::Permute { .. } => "permute",
            Xf::Large { .. } => "large_header",
            Xf::Spare { .. } => "spare_bytes",
            Xf::SpareAtEnd { .. } => "spare_bytes_at_end_of_file",
        }
    }
    pub fn target(&self) -> String {
        match self {
            Xf::InsertTop { pos, .. } => format!("top@{}", pos),
            Xf::InsertChild { path, slot, .. } => format!("{}@{}", strip_idx(path), slot),
            Xf::Permute { path, .. } | Xf::Large { path } | Xf::Spare { path, .. } | Xf::SpareAtEnd { path, .. } => strip_idx(path),
        }
    }
}

pub fn strip_idx(p: &str) -> String {
    p.split('/').map(|s| s.split('#').next().unwrap_or("")).collect::<Vec<_>>().join("/")
}

/// containers whose reader iterates over children (free/unknown children must be skipped)
pub const ITERATING: [&[u8; 4]; 14] = [b"moov", b"trak", b"mdia", b"minf", b"stbl", b"dinf", b"udta", b"meta", b"ilst", b"moof", b"traf", b"mvex", b"avc1", b"mp4a"];
/// fixed-layout and table boxes that tolerate spare trailing bytes
pub const SPARE_OK: [&[u8; 4]; 24] = [
    b"mvhd", b"tkhd", b"mdhd", b"vmhd", b"smhd", b"stts", b"ctts", b"stss", b"stsc", b"stsz", b"stco", b"co64", b"elst", b"mehd", b"trex", b"mfhd",
    b"tfhd", b"tfdt", b"trun", b"tx3g", b"avcC", b"esds", b"vpcC", b"stsd",
];
/// containers whose children may be permuted
pub const PERMUTABLE: [&[u8; 4]; 10] = [b"moov", b"trak", b"mdia", b"minf", b"stbl", b"udta", b"moof", b"traf", b"mvex", b"meta"];

#[derive(Debug, Clone)]
pub struct BoxInfo {
    pub path: String,
    pub typ: [u8; 4],
    pub parent: Option<[u8; 4]>,
    pub first_child_part: usize,
    pub nparts: usize,
    pub nchildren: usize,
}

fn walk_info(b: &BoxT, path: &str, parent: Option<[u8; 4]>, out: &mut Vec<BoxInfo>) {
    let first_child_part = b.parts.iter().position(|p| matches!(p, Part::Child(_))).unwrap_or(b.parts.len());
    out.push(BoxInfo { path: path.to_string(), typ: b.typ, parent, first_child_part, nparts: b.parts.len(), nchildren: b.children().len() });
    let mut counts: std::collections::HashMap<[u8; 4], usize> = Default::default();
    for c in b.children() {
        let i = counts.entry(c.typ).or_insert(0);
        let p = format!("{}/{}#{}", path, c.name(), i);
        *i += 1;
        walk_info(c, &p, Some(b.typ), out);
    }
}

pub fn infos(top: &[BoxT]) -> Vec<BoxInfo> {
    let mut out = Vec::new();
    let mut counts: std::collections::HashMap<[u8; 4], usize> = Default::default();
    for b in top {
        let i = counts.entry(b.typ).or_insert(0);
        let p = format!("{}#{}", b.name(), i);
        *i += 1;
        walk_info(b, &p, None, &mut out);
    }
    out
}

fn find_in<'a>(b: &'a mut BoxT, my: &str, want: &str) -> Option<&'a mut BoxT> {
    if my == want {
        return Some(b);
    }
    if !want.starts_with(my) {
        return None;
    }
    let mut counts: std::collections::HashMap<[u8; 4], usize> = Default::default();
    for c in b.children_mut() {
        let i = counts.entry(c.typ).or_insert(0);
        let p = format!("{}/{}#{}", my, c.name(), i);
        *i += 1;
        if want == p || want.starts_with(&format!("{}/", p)) {
            return find_in(c, &p, want);
        }
    }
    None
}

pub fn find<'a>(top: &'a mut [BoxT], want: &str) -> Option<&'a mut BoxT> {
    let mut counts: std::collections::HashMap<[u8; 4], usize> = Default::default();
    for b in top.iter_mut() {
        let i = counts.entry(b.typ).or_insert(0);
        let p = format!("{}#{}", b.name(), i);
        *i += 1;
        if want == p || want.starts_with(&format!("{}/", p)) {
            return find_in(b, &p, want);
        }
    }
    None
}

fn filler(typ: &[u8; 4], len: usize, large: bool) -> BoxT {
    let mut b = free_box(typ, len, 0x5A);
    b.large = large;
    b
}

/// Apply one transformation; returns false if the target does not exist in this tree.
pub fn apply(top: &mut Vec<BoxT>, x: &Xf) -> bool {
    match x {
        Xf::InsertTop { pos, typ, len, large } => {
            let p = (*pos).min(top.len());
            top.insert(p, filler(typ, *len, *large));
            true
        }
        Xf::InsertChild { path, slot, typ, len, large } => match find(top, path) {
            Some(b) => {
                let first = b.parts.iter().position(|p| matches!(p, Part::Child(_))).unwrap_or(b.parts.len());
                let at = (first + slot).min(b.parts.len());
                b.parts.insert(at, Part::Child(filler(typ, *len, *large)));
                true
            }
            None => false,
        },
        Xf::Permute { path, seed } => match find(top, path) {
            Some(b) => {
                let first = b.parts.iter().position(|p| matches!(p, Part::Child(_))).unwrap_or(b.parts.len());
                let mut kids: Vec<Part> = b.parts.drain(first..).collect();
                // stable permutation: shuffle, then restore relative order among same types
                let mut rng = Rng::new(*seed);
                let orig_types: Vec<[u8; 4]> = kids.iter().map(|p| if let Part::Child(c) = p { c.typ } else { [0; 4] }).collect();
                let mut order: Vec<usize> = (0..kids.len()).collect();
                rng.shuffle(&mut order);
                // type sequence after shuffle
                let shuffled_types: Vec<[u8; 4]> = order.iter().map(|i| orig_types[*i]).collect();
                // for each type, queue of original indices in original order
                let mut queues: std::collections::HashMap<[u8; 4], std::collections::VecDeque<usize>> = Default::default();
                for (i, t) in orig_types.iter().enumerate() {
                    queues.entry(*t).or_default().push_back(i);
                }
                let final_order: Vec<usize> = shuffled_types.iter().map(|t| queues.get_mut(t).unwrap().pop_front().unwrap()).collect();
                let mut slots: Vec<Option<Part>> = kids.drain(..).map(Some).collect();
                for i in final_order {
                    b.parts.push(slots[i].take().unwrap());
                }
                true
            }
            None => false,
        },
        Xf::Large { path } => match find(top, path) {
            Some(b) => {
                b.large = true;
                b.to_end = false;
                true
            }
            None => false,
        },
        Xf::Spare { path, n } => match find(top, path) {
            Some(b) => {
                b.spare = vec![0xA5; *n];
                true
            }
            None => false,
        },
        Xf::SpareAtEnd { path, n } => {
            match find(top, path) {
                Some(b) => b.spare = vec![0xA5; *n],
                None => return false,
            }
            move_to_end(top, path);
            true
        }
    }
}

/// index of the part holding the child named by path component `comp` ("type#k")
fn child_part(b: &BoxT, comp: &str) -> Option<usize> {
    let mut counts: std::collections::HashMap<[u8; 4], usize> = Default::default();
    for (pi, p) in b.parts.iter().enumerate() {
        if let Part::Child(c) = p {
            let i = counts.entry(c.typ).or_insert(0);
            let name = format!("{}#{}", c.name(), i);
            *i += 1;
            if name == comp {
                return Some(pi);
            }
        }
    }
    None
}

fn move_to_end(top: &mut Vec<BoxT>, path: &str) {
    let comps: Vec<&str> = path.split('/').collect();
    // top level
    let mut counts: std::collections::HashMap<[u8; 4], usize> = Default::default();
    let mut at = None;
    for (i, b) in top.iter().enumerate() {
        let k = counts.entry(b.typ).or_insert(0);
        if format!("{}#{}", b.name(), k) == comps[0] {
            at = Some(i);
        }
        *k += 1;
    }
    let at = match at {
        Some(a) => a,
        None => return,
    };
    if !top[at + 1..].iter().any(|b| b.typ == top[at].typ) && &top[at].typ != b"ftyp" {
        let b = top.remove(at);
        top.push(b);
    }
    let last = top.len() - 1;
    let mut cur: &mut BoxT = if top[last].name() == comps[0].split('#').next().unwrap_or("") { &mut top[last] } else { &mut top[at] };
    for comp in &comps[1..] {
        let pi = match child_part(cur, comp) {
            Some(p) => p,
            None => return,
        };
        let typ = if let Part::Child(c) = &cur.parts[pi] { c.typ } else { return };
        let later_same = cur.parts[pi + 1..].iter().any(|p| matches!(p, Part::Child(c) if c.typ == typ));
        let new_pi = if PERMUTABLE.iter().any(|t| **t == cur.typ) && !later_same {
            let part = cur.parts.remove(pi);
            cur.parts.push(part);
            cur.parts.len() - 1
        } else {
            pi
        };
        cur = match &mut cur.parts[new_pi] {
            Part::Child(c) => c,
            _ => return,
        };
    }
}

/// Every single transformation applicable to this tree (complete per kind/position).
pub fn enumerate(top: &[BoxT], rng: &mut Rng) -> Vec<Xf> {
    let mut v = Vec::new();
    // unknown / ignorable types: the two the specification names (free, skip), QuickTime's wide,
    // uuid, a made-up code, and the all-zero code (QuickTime's "terminator atom" has type 0)
    let unk = |rng: &mut Rng| -> [u8; 4] { *rng.pick(&[*b"free", *b"skip", *b"zzzz", *b"uuid", *b"wide", [0u8; 4]]) };
    for pos in 0..=top.len() {
        v.push(Xf::InsertTop { pos, typ: unk(rng), len: rng.usize_below(24), large: rng.chance(1, 4) });
    }
    for bi in infos(top) {
        let iterating = ITERATING.iter().any(|t| **t == bi.typ) || bi.parent == Some(*b"ilst");
        if iterating {
            for slot in 0..=bi.nchildren {
                v.push(Xf::InsertChild { path: bi.path.clone(), slot, typ: unk(rng), len: rng.usize_below(24), large: rng.chance(1, 4) });
            }
        }
        if PERMUTABLE.iter().any(|t| **t == bi.typ) && bi.nchildren >= 2 {
            v.push(Xf::Permute { path: bi.path.clone(), seed: rng.next_u64() });
        }
        v.push(Xf::Large { path: bi.path.clone() });
        if SPARE_OK.iter().any(|t| **t == bi.typ) {
            v.push(Xf::Spare { path: bi.path.clone(), n: 1 + rng.usize_below(16) });
            v.push(Xf::SpareAtEnd { path: bi.path.clone(), n: 1 + rng.usize_below(8) });
        }
    }
    v
}

/// Give a deterministic pseudo-random subset (about one in `one_in`) of the boxes below `moov`
/// the 64-bit size header (size = 1 + largesize). ISO/IEC 14496-12 4.2 allows that form on any
/// box; it changes no table content, only positions, which the builder resolves afterwards.
pub fn mark_large(top: &mut Vec<BoxT>, seed: u64, one_in: u64) -> u64 {
    fn rec(b: &mut BoxT, seed: u64, one_in: u64, k: &mut u64, marked: &mut u64) {
        *k += 1;
        if crate::prng::hash64(&[seed.to_le_bytes(), k.to_le_bytes()].concat()) % one_in == 0 {
            b.large = true;
            b.to_end = false;
            *marked += 1;
        }
        for p in b.parts.iter_mut() {
            if let Part::Child(c) = p {
                rec(c, seed, one_in, k, marked);
            }
        }
    }
    let mut k = 0u64;
    let mut marked = 0u64;
    for b in top.iter_mut() {
        if &b.typ == b"moov" {
            rec(b, seed, one_in, &mut k, &mut marked);
        }
    }
    marked
}

/// The same for the descendants of one box (the box itself is left alone): used on `moof`
/// boxes, whose children (mfhd, traf, tfhd, tfdt, trun) may use the 64-bit header form as well.
pub fn mark_large_in(b: &mut BoxT, seed: u64, one_in: u64) -> u64 {
    fn rec(b: &mut BoxT, seed: u64, one_in: u64, k: &mut u64, marked: &mut u64) {
        for p in b.parts.iter_mut() {
            if let Part::Child(c) = p {
                *k += 1;
                if crate::prng::hash64(&[seed.to_le_bytes(), k.to_le_bytes()].concat()) % one_in == 0 {
                    c.large = true;
                    c.to_end = false;
                    *marked += 1;
                }
                rec(c, seed, one_in, k, marked);
            }
        }
    }
    let (mut k, mut marked) = (0u64, 0u64);
    rec(b, seed, one_in, &mut k, &mut marked);
    marked
}

/// Insert 1-3 unknown boxes (free / skip / wide / uuid / a made-up type; 32- or 64-bit header;
/// 0-40 payload bytes) at pseudo-random child slots of iterating containers or at top level.
pub fn insert_unknown(top: &mut Vec<BoxT>, seed: u64) -> u64 {
    let mut rng = Rng::new(seed);
    let singles: Vec<Xf> = enumerate(top, &mut rng).into_iter().filter(|x| matches!(x, Xf::InsertTop { .. } | Xf::InsertChild { .. })).collect();
    if singles.is_empty() {
        return 0;
    }
    let n = 1 + rng.usize_below(3);
    let mut done = 0;
    for _ in 0..n {
        let mut x = singles[rng.usize_below(singles.len())].clone();
        let t = *rng.pick(&[*b"uuid", *b"free", *b"skip", *b"wide", *b"zzzz", *b"uuid"]);
        let l = *rng.pick(&[0usize, 1, 15, 16, 17, 40]);
        match &mut x {
            Xf::InsertTop { pos, typ, len, .. } => {
                // never in front of ftyp
                *pos = (*pos).max(1);
                *typ = t;
                *len = l;
            }
            Xf::InsertChild { typ, len, .. } => {
                *typ = t;
                *len = l;
            }
            _ => {}
        }
        if apply(top, &x) {
            done += 1;
        }
    }
    done
}
